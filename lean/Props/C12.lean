import Proofs.HypervolumeNds
import Proofs.HvRecorder

/-!
# C12 — Hypervolume indicator is exact, monotone and side-effect free

Property theorems only.  `hv ref pts` (`Model/Hypervolume.lean`) is the executable
specification of the dominated volume (minimisation): slab integral over the first
coordinate of the volumes of the cross-sections, clipped at the reference.

* about the specification, for **every** finite list of points, every reference and every
  number of objectives: set function (`C12_set_ext`, `_perm`, `_dup`), `C12_nonneg`,
  `C12_monotone`, `C12_add_dominated` / `C12_prefilter_sound`, `C12_boundary_zero`,
  `C12_translate`; that it is *the* volume: `C12_single_box` (one point = its box),
  `C12_incl_excl` (inclusion–exclusion; together with the box formula it determines the
  function), `C12_slicing_order` (slicing on the last coordinate first, as the code sweeps,
  gives the same number);
* about the code (`hypervolumeCode` = NDS pre-filter of C11, shift by the reference,
  `preProcess`, `hvRecursive`): one and two objectives are proved equal to the specification end
  to end (`C12_1d`, `C12_2d_sweep`, `C12_1d_code`, `C12_2d_code`), for every argsort order;
* three objectives (`C12_3d_code`): the general dimension-sweep branch at its top level, calling
  the 2-D sweep, is proved equal to the specification end to end as well;
* four and five objectives (`C12_4d_code`, `C12_5d_code`), boundary points included, and any number of
  objectives (`C12_nd_code_class`, `C12_nd_code_interior`): the nested dimension sweep (`Model.levelN`
  calling itself) with the `ignore` flags set by outer levels, the cached `area`/`volume` arrays and the
  shared `bounds` is proved equal to the specification, by induction over the recursion levels with the
  invariant `SpecL` (`C12_level_invariant_live`; the first version `Spec`, `C12_level_invariant`, claims
  exactness everywhere and holds on a smaller class; `C12_ignore_sound` is the soundness of the flag
  test) — for `m ≥ 6` under the side condition that no point touches the reference boundary in an
  objective `4 … m−2`;
* **partial** (`C12_nd_code_partial`): for ≥ 6 objectives *and a point on the reference boundary in
  an objective `4 … m−2`* the model is tied to `hv` by the correspondence run only (see the comment
  at `C12_nd_code`).

* the glue in `evaluator/callback.py` (`Model/HvRecorder.lean`): `ObjectiveRecorder` calls
  `hypervolume(-objectives, componentwise worst point)`; that call is inside the property's quantifier
  (`C12_recorder_in_quantifier`), the value it computes is the specified one for 1–5 objectives
  (`C12_recorder_code`), the hypervolume is monotone in the reference (`C12_ref_monotone`), hence the
  value reported along ANY stream of jobs — failures included, any length — never decreases
  (`C12_recorder_monotone`); a failure records nothing (`C12_recorder_failure`); a reference point kept
  incrementally by exact componentwise maxima is the worst point of the history
  (`C12_recorder_incremental_ref`, `C12_recorder_ref_step`); the early-stopping
  counter restarts on every strict improvement and the search stops only after `patience`
  non-improving jobs (`C12_stopper_improving`, `C12_stopper_patience`).

Side-effect freedom is an observation on the real code (the caller's array and reference are
compared before/after every call in `harness/c12.py`); in the model it is immediate: every
function is pure and `compute` works on the copy `pointset[nds]`.
-/

namespace DH.Hypervolume
open DH.Pareto (Vec wdVec ndsMask)

/-- **C12 (set function).**  The value depends only on the *set* of points: it is invariant
under permutation and under duplication of points. -/
theorem C12_set_ext (ref : List Rat) (P Q : List Vec) (h : ∀ p, p ∈ P ↔ p ∈ Q) :
    hv ref P = hv ref Q :=
  hv_set_ext ref P Q h

/-- permutation invariance, spelled out -/
theorem C12_perm (ref : List Rat) (P Q : List Vec) (h : P.Perm Q) : hv ref P = hv ref Q :=
  hv_set_ext ref P Q (fun _ => h.mem_iff)

/-- duplication invariance, spelled out -/
theorem C12_dup (ref : List Rat) (p : Vec) (P : List Vec) (h : p ∈ P) : hv ref (p :: P) = hv ref P :=
  hv_set_ext ref _ _ (fun x => by
    simp only [List.mem_cons]
    constructor
    · rintro (rfl | h')
      · exact h
      · exact h'
    · exact Or.inr)

theorem C12_empty (ref : List Rat) : hv ref [] = 0 := hv_nil_pts ref

theorem C12_nonneg (ref : List Rat) (P : List Vec) : 0 ≤ hv ref P := hv_nonneg ref P

/-- **C12 (exact for one point).**  A single point below the reference dominates exactly the
box between itself and the reference. -/
theorem C12_single_box (ref : List Rat) (p : Vec) (h : wdVec p ref = true) :
    hv ref [p] = boxVol ref p :=
  hv_single ref p h

/-- **C12 (monotone).**  Adding any point (inside or outside the reference box, dominated or
not, duplicate or not) never decreases the value. -/
theorem C12_monotone (ref : List Rat) (q : Vec) (P : List Vec) : hv ref P ≤ hv ref (q :: P) :=
  hv_le_cons ref q P

/-- monotone in the point set -/
theorem C12_monotone_subset (ref : List Rat) (P Q : List Vec) (h : ∀ p ∈ P, p ∈ Q) :
    hv ref P ≤ hv ref Q :=
  hv_mono ref h

/-- **C12 (dominated points are irrelevant).**  Adding a point that is weakly dominated by a
point of the set changes nothing. -/
theorem C12_add_dominated (ref : List Rat) (P : List Vec) (p q : Vec) (hp : p ∈ P)
    (hpq : wdVec p q = true) : hv ref (q :: P) = hv ref P :=
  hv_cons_dominated ref P p q hp hpq

/-- … hence the non-dominated pre-filter of `hypervolume` is sound: any sub-collection `F` of
`P` that weakly dominates every point of `P` (in particular `pointset[nds]`, by `C11_nds`)
has the hypervolume of `P`. -/
theorem C12_prefilter_sound (ref : List Rat) (F P : List Vec) (hsub : ∀ y ∈ F, y ∈ P)
    (hcov : ∀ x ∈ P, ∃ y ∈ F, wdVec y x = true) : hv ref F = hv ref P :=
  hv_cover ref hsub hcov

/-- **C12 (boundary).**  A point with a coordinate on (or beyond) the reference boundary
contributes nothing. -/
theorem C12_boundary_zero (ref : List Rat) (q : Vec) (P : List Vec) (i : Nat) (r x : Rat)
    (hr : ref[i]? = some r) (hq : q[i]? = some x) (hrx : r ≤ x) : hv ref (q :: P) = hv ref P :=
  hv_cons_outside ref q P i r x hr hq hrx

/-- a set of boundary points alone has hypervolume zero -/
theorem C12_boundary_only (ref : List Rat) (q : Vec) (i : Nat) (r : Rat)
    (hr : ref[i]? = some r) (hq : q[i]? = some r) : hv ref [q] = 0 := by
  rw [hv_cons_outside ref q [] i r r hr hq (le_refl _), hv_nil_pts]

/-- **C12 (translation).**  Shifting the points and the reference by the same vector (what
`compute` does with `relevantPoints -= referencePoint`) does not change the value. -/
theorem C12_translate (ref d : List Rat) (P : List Vec) (hd : d.length = ref.length)
    (hP : Rect ref.length P) :
    hv (subVec ref d) (P.map (fun p => subVec p d)) = hv ref P :=
  hv_translate ref d P hd hP

/-- the evaluator the driver runs (`hvFast`, cross-sections pruned to their non-dominated
points) is the specification -/
theorem C12_fast_eq (ref : List Rat) (P : List Vec) : hvFast ref P = hv ref P := hvFast_eq ref P

/-- **C12 (code path `dimIndex == 0`).**  On the shifted front (reference at the origin),
list 0 sorted by `cargo[0]`, the branch `return -sentinel.next[0].cargo[0]` is the
1-D hypervolume. -/
theorem C12_1d (l : List Vec) (hne : l ≠ []) (hrect : Rect 1 l)
    (hsorted : l.Pairwise (fun p q => co p 0 ≤ co q 0)) (hneg : ∀ p ∈ l, co p 0 ≤ 0) :
    level0 l = hv [0] l :=
  level0_eq l hne hrect hsorted hneg

/-- **C12 (code path `dimIndex == 1`, the 2-D sweep).**  On the shifted points (reference at
the origin, every point below it), list 1 sorted by `cargo[1]` — no other assumption, in
particular the points need not be mutually non-dominated and may repeat — the sweep with the
running minimum `h` returns the hypervolume. -/
theorem C12_2d_sweep (l : List Vec) (hrect : Rect 2 l)
    (hsorted : l.Pairwise (fun p q => co p 1 ≤ co q 1)) (hneg : ∀ p ∈ l, wdVec p [0, 0] = true) :
    sweep2 l = hv [0, 0] l := by
  rw [sweep2_eq l hrect hsorted hneg]
  exact hv_reverse [0, 0] l hrect

/-- **C12 (inclusion–exclusion).**  `vol(P ∪ Q) + vol(P ⊓ Q) = vol P + vol Q`, where `P ⊓ Q` is the
set of componentwise maxima (the region dominated by both).  With `C12_single_box` and
`C12_empty` this determines `hv` (see `C12_incl_excl_step`): `hv` is the inclusion–exclusion
volume of the union of the boxes `[p, ref]`. -/
theorem C12_incl_excl (ref : List Rat) (P Q : List Vec) (hP : Rect ref.length P)
    (hQ : Rect ref.length Q) : hv ref (P ++ Q) + hv ref (meets P Q) = hv ref P + hv ref Q :=
  hv_incl_excl ref P Q hP hQ

theorem C12_incl_excl_step (ref : List Rat) (p : Vec) (P : List Vec) (hp : p.length = ref.length)
    (hP : Rect ref.length P) :
    hv ref (p :: P) = hv ref [p] + hv ref P - hv ref (P.map (meet p)) :=
  hv_cons_incl_excl ref p P hp hP

/-- **C12 (slicing order).**  Integrating over the last coordinate first (the order in which
`hvRecursive` sweeps) gives the same value as integrating over the first coordinate first. -/
theorem C12_slicing_order (ref : List Rat) (P : List Vec) (hP : Rect ref.length P) :
    hvLast ref P = hv ref P :=
  hvLast_eq ref P hP

/-- what `argsort` is assumed to return inside the NDS pre-filter (as in C11) -/
def OrderOK (n : Nat) (order : List Nat) : Prop :=
  (∀ i, i < n → i ∈ order) ∧ (∀ i ∈ order, i < n)

/-- **C12 (one objective, the whole function).**  `hypervolume(pointset, ref)` — NDS pre-filter,
shift, `preProcess`, `hvRecursive(0, …)` — returns the exact hypervolume of the *whole* point
set, for every argsort order. -/
theorem C12_1d_code (r : Rat) (pts : List Vec) (order : List Nat) (ho : OrderOK pts.length order)
    (hrect : Rect 1 pts) (hle : ∀ p ∈ pts, wdVec p [r] = true) :
    hypervolumeCode pts [r] order = some (hv [r] pts) :=
  hypervolumeCode_1d r pts order ho.1 ho.2 hrect hle

/-- **C12 (two objectives, the whole function).** -/
theorem C12_2d_code (r0 r1 : Rat) (pts : List Vec) (order : List Nat)
    (ho : OrderOK pts.length order) (hrect : Rect 2 pts)
    (hle : ∀ p ∈ pts, wdVec p [r0, r1] = true) :
    hypervolumeCode pts [r0, r1] order = some (hv [r0, r1] pts) :=
  hypervolumeCode_2d r0 r1 pts order ho.1 ho.2 hrect hle

/-- **C12 (three objectives, the whole function).**  Here the general dimension-sweep branch
runs at its top level (`dimIndex = 2`): unlink loop, area initialisation, `ignore` flags,
re-insertion loop with the `area`/`volume`/`bounds` bookkeeping, each step calling the 2-D sweep on
the nodes linked so far.  `hbig` states that no shifted last coordinate reaches the code's own
sentinel `bounds = -1.0e308` (true for every input whose volume is a finite double). -/
theorem C12_3d_code (r0 r1 r2 : Rat) (pts : List Vec) (order : List Nat)
    (ho : OrderOK pts.length order) (hrect : Rect 3 pts)
    (hle : ∀ p ∈ pts, wdVec p [r0, r1, r2] = true) (hbig : ∀ p ∈ pts, negInf < co p 2 - r2) :
    hypervolumeCode pts [r0, r1, r2] order = some (hv [r0, r1, r2] pts) :=
  hypervolumeCode_3d r0 r1 r2 pts order ho.1 ho.2 hrect hle hbig

/-- **C12 (the sweep scheme, any number of objectives).**  What every level of the dimension
sweep adds up — points sorted by the swept coordinate (ties allowed), each slab = distance to the
next point × volume of the cross-section spanned by the points seen so far — is the hypervolume,
provided the cross-section volumes are exact.  (`levelN` is this sum with the cross-section volumes
taken from the recursive call, from the cached `area` of the kept prefix, or copied from the
predecessor for `ignore`d nodes.) -/
theorem C12_sweep_scheme (r : Rat) (rs : List Rat) (q : Vec) (rest : List Vec)
    (hs : (q :: rest).Pairwise (fun a b => hd a ≤ hd b)) (hr : ∀ p ∈ q :: rest, hd p ≤ r)
    (hne : ∀ p ∈ q :: rest, p ≠ []) :
    hv (r :: rs) (q :: rest) = sweepSum (fun X => hv rs (X.map List.tail)) r [] q rest :=
  hv_eq_sweepSum r rs q rest hs hr hne

/-- **C12 (strictly monotone).**  A point strictly inside the reference box that no point of the set
weakly dominates adds volume. -/
theorem C12_strict_monotone (ref : List Rat) (q : Vec) (P : List Vec) (hP : Rect ref.length P)
    (hq : ltVec q ref = true) (hnd : ∀ p ∈ P, wdVec p q = false) : hv ref P < hv ref (q :: P) :=
  hv_lt_cons ref q P hP hq hnd

/-- **C12 (soundness of the `ignore` test).**  `hvRecursive` flags a node when linking it does not
increase the cross-section volume; for a node strictly inside the box this happens only if a node
linked before weakly dominates it (so skipping it at the lower levels loses nothing). -/
theorem C12_ignore_sound (ref : List Rat) (q : Vec) (P : List Vec) (hP : Rect ref.length P)
    (hq : ltVec q ref = true) (h : hv ref (q :: P) ≤ hv ref P) : ∃ p ∈ P, wdVec p q = true :=
  hv_eq_imp_dominated ref q P hP hq h

/-- **C12 (the invariant of the nested sweep).**  For a run (`Run.OK`: rectangular, weakly inside the box with boundary coordinates only in the objectives
`0, 1, 2, m−1`, sweep lists as built by `preProcess`), **every** recursion level
`j+1 ≥ 1` of `hvRecursive` satisfies the level specification `Spec`: called on linked ids `S` in a
state whose caches `area[k]`/`volume[k]` (`k ≤ j+1`) are exact below `bounds[k]` (`Cache`) and whose
`ignore` flags `≥ j+1` are justified by a dominating node in front or by a boundary coordinate
(`FIge`), it returns the exact
hypervolume of `S` projected on the coordinates `0..j+1`, re-establishes the caches for the new
`bounds`, leaves every set flag justified (`AllFI`) and changes nothing above its level
(`Frame`). -/
theorem C12_level_invariant (R : Run) (hR : R.OK) (j : Nat) (hj : j + 1 < R.m) :
    Spec R (j + 1) (hvRecursive true R.orders (j + 1)) :=
  spec_all hR j hj

/-- **C12 (the invariant of the nested sweep, relativised to live prefixes).**  For a run in the larger
class `Run.OK5` (boundary coordinates only in the objectives `0, 1, 2, 3, m−1` — every run with `m ≤ 5`
objectives) every recursion level `j+1 ≥ 1` satisfies `SpecL`.  A node with a zero coordinate `3` is
flagged `ignore` at the levels above *without* a dominating node and is then skipped at level `2`,
where it would contribute: what is computed while it is linked there is NOT the exact cross-section
volume (and meets a zero-width slab of the sweep of level `3`).  `SpecL` therefore claims the value,
the cached `area[k]` / `volume[k]` (`CacheL`) only for *live* sets / prefixes — no node on the
boundary in an objective strictly between the level and the last one (`Live`) — and a flag may be
justified by a dominating node in front, by a zero coordinate of the node below the last objective
(`ZeroAny`), or by a linked node in front of it in the flag's list that lies on the boundary in an objective
at or above the flag level (`GarbZ`: the compared values were not claimed exact). -/
theorem C12_level_invariant_live (R : Run) (hR : R.OK5) (j : Nat) (hj : j + 1 < R.m) :
    SpecL R (j + 1) (hvRecursive true R.orders (j + 1)) :=
  spec_all_L hR j hj

/-- **C12 (four objectives, the whole function).**  Points weakly below the reference — boundary
points included — and every argsort order: NDS pre-filter, shift, `preProcess`, the dimension sweep
at `dimIndex = 3` calling the stateful sweep at `dimIndex = 2` (with its `ignore` flags, cached
`area`/`volume` and `bounds`), which calls the 2-D sweep. -/
theorem C12_4d_code (r0 r1 r2 r3 : Rat) (pts : List Vec) (order : List Nat)
    (ho : OrderOK pts.length order) (hrect : Rect 4 pts)
    (hle : ∀ p ∈ pts, wdVec p [r0, r1, r2, r3] = true)
    (hbig : ∀ p ∈ pts, ∀ k, k < 4 → negInf < co p k - co [r0, r1, r2, r3] k) :
    hypervolumeCode pts [r0, r1, r2, r3] order = some (hv [r0, r1, r2, r3] pts) :=
  hypervolumeCode_nd [r0, r1, r2, r3] pts order ho.1 ho.2 (by simp) hrect hle hbig
    (fun _ _ k hk _ => by
      simp only [List.length_cons, List.length_nil] at hk ⊢
      omega)

/-- **C12 (five objectives, the whole function).**  Points weakly below the reference — boundary
points in ANY objective included — and every argsort order: three nested stateful sweeps
(`dimIndex = 4, 3, 2`) above the 2-D sweep.  A point with `p[3] = ref[3]` is the first case in which the
code computes cross-section volumes that are not exact (see `C12_level_invariant_live`). -/
theorem C12_5d_code (r0 r1 r2 r3 r4 : Rat) (pts : List Vec) (order : List Nat)
    (ho : OrderOK pts.length order) (hrect : Rect 5 pts)
    (hle : ∀ p ∈ pts, wdVec p [r0, r1, r2, r3, r4] = true)
    (hbig : ∀ p ∈ pts, ∀ k, k < 5 → negInf < co p k - co [r0, r1, r2, r3, r4] k) :
    hypervolumeCode pts [r0, r1, r2, r3, r4] order = some (hv [r0, r1, r2, r3, r4] pts) :=
  hypervolumeCode_nd5 [r0, r1, r2, r3, r4] pts order ho.1 ho.2 (by simp) hrect hle hbig
    (fun _ _ k hk _ => by
      simp only [List.length_cons, List.length_nil] at hk ⊢
      omega)

/-- **C12 (any number of objectives, the whole function).**  For every number `m ≥ 2` of objectives,
every point set weakly below the reference (and above the code's sentinel `-1.0e308`) and every
argsort order, `hypervolume(pointset, ref)` — NDS pre-filter, shift, `preProcess`, the nested
dimension sweep `hvRecursive` with its `ignore` flags, cached `area`/`volume` arrays and shared
`bounds` — returns the exact hypervolume, **provided** (`hcls`) a coordinate of a point EQUALS the
reference's only in the objectives `0, 1, 2, 3` or in the last one.  (No restriction for `m ≤ 5`; for
`m ≥ 6` the excluded case is a point on the reference boundary in an objective `4 … m−2`.) -/
theorem C12_nd_code_class (ref : List Rat) (pts : List Vec) (order : List Nat)
    (ho : OrderOK pts.length order) (hm : 2 ≤ ref.length) (hrect : Rect ref.length pts)
    (hle : ∀ p ∈ pts, wdVec p ref = true)
    (hbig : ∀ p ∈ pts, ∀ k, k < ref.length → negInf < co p k - co ref k)
    (hcls : ∀ p ∈ pts, ∀ k, k < ref.length → co p k = co ref k → k ≤ 3 ∨ k + 1 = ref.length) :
    hypervolumeCode pts ref order = some (hv ref pts) :=
  hypervolumeCode_nd5 ref pts order ho.1 ho.2 hm hrect hle hbig hcls

/-- … in particular for every point set strictly inside the reference box, in any number of
objectives. -/
theorem C12_nd_code_interior (ref : List Rat) (pts : List Vec) (order : List Nat)
    (ho : OrderOK pts.length order) (hm : 2 ≤ ref.length) (hrect : Rect ref.length pts)
    (hlt : ∀ p ∈ pts, ltVec p ref = true)
    (hbig : ∀ p ∈ pts, ∀ k, k < ref.length → negInf < co p k - co ref k) :
    hypervolumeCode pts ref order = some (hv ref pts) :=
  hypervolumeCode_nd5 ref pts order ho.1 ho.2 hm hrect (fun p hp => wdVec_of_ltVec (hlt p hp)) hbig
    (fun p hp k hk heq => absurd heq (ne_of_lt (co_of_ltVec p ref k (hlt p hp) hk)))

/-
TARGET (not proved in full), any number of objectives `m = ref.length ≥ 1`, points weakly below the
reference (`wdVec p ref`, i.e. points ON the reference boundary allowed):

  theorem C12_nd_code (ref : List Rat) (pts : List Vec) (order : List Nat)
      (hm : 0 < ref.length) (ho : OrderOK pts.length order) (hrect : Rect ref.length pts)
      (hle : ∀ p ∈ pts, wdVec p ref = true) (hbig : …above the sentinel…) :
      hypervolumeCode pts ref order = some (hv ref pts)

Proved: `m = 1, 2, 3, 4, 5` (`C12_1d_code`, `C12_2d_code`, `C12_3d_code`, `C12_4d_code`, `C12_5d_code`) and
every `m ≥ 6` under `hcls` (`C12_nd_code_class`; in particular all interior point sets,
`C12_nd_code_interior`).
Missing: `m ≥ 6` with a point that has a coordinate EQUAL to the reference's in an objective
`i ∈ 4 … m−2`.  A node `z` with a zero coordinate `i` adds nothing at every level `e > i`, is flagged
`ignore` there without a dominating node and is then skipped also at the levels `2 ≤ d < i` where it
would contribute; everything computed while `z` is linked below level `i` is not exact, and is
multiplied by the zero width of the top group of list `i`.  The relativised invariant `SpecL`
(`C12_level_invariant_live`) makes that rigorous: values and caches are claimed only for *live*
prefixes, flags set from non-exact values are justified by `GarbZ`.  What it cannot carry for `i ≥ 4`:
a node `x` flagged at a level `e` with `2 < e < i` from such values (`z` in front of `x` in list `e`) can be
IN FRONT of `z` in a list `d < e`; the flag is then read at level `d` on a prefix that is live, `x` is
skipped there although it contributes, and `area[d]` / `volume[d]` of the nodes from `x` on are wrong
although their prefixes are live (observed in the model: about 1 run in 10³ on boundary-heavy 6–7
objective lattice sets; never for `i = 3`, where `e = d = 2` is the only possibility — that is the case
`justG_prefix` closes).  Those cache entries are never READ on a live prefix: when `z` is unlinked
at level `i`, `bounds[j] ≤ z[j]` for `j < i`, and because `x` is in front of `z` in list `i` but behind it
in list `e`, the tie rule of `preProcess` gives a `j ∈ [e, i)` with `z[j] < x[j]`, so `x` is removed at
level `j` before any level below is entered, which lowers `bounds[d]` to `x[d]` or below.  Making this a
level invariant needs the sets linked at the levels ABOVE the current call as ghost context (the
witness `z` need not be linked at the level that reads the flag) and a second exemption for nodes
with `bounds[j] < x[j]`; validated by execution (`/tmp`-experiments summarised in notes/C12.md), not
proved.  The correspondence run covers the missing case on every run.
-/

/-- **C12 (≥ 6 objectives with boundary points in the objectives `4 … m−2`, partial).**  Everything around the sweep is proved
without the interior hypothesis: the
pre-filter and the shift preserve the hypervolume, and the recursion scheme the sweep implements
(slice on the last coordinate, recurse on the cross-sections) computes `hv`.  So
`hypervolumeCode pts ref order = some (hv ref pts)` follows as soon as
`computeV … ref front` is shown to return `hvLast` of the shifted front. -/
theorem C12_nd_code_partial (ref : List Rat) (pts : List Vec) (order : List Nat)
    (ho : OrderOK pts.length order) (hrect : Rect ref.length pts) :
    let front := selectMask pts (ndsMask pts order)
    hvLast (subVec ref ref) (front.map (fun p => subVec p ref)) = hv ref pts := by
  intro front
  have hf := front_sub_cover pts order ho.1 ho.2
  have hrf : Rect ref.length front := fun p hp => hrect p (hf.1 p hp)
  have hlen : (subVec ref ref).length = ref.length := subVec_length ref ref rfl
  rw [hvLast_eq _ _ (by rw [hlen]; exact rect_shift rfl hrf), hv_translate ref ref front rfl hrf]
  exact hv_front ref pts order ho.1 ho.2

/-! ### the glue in `evaluator/callback.py`: `ObjectiveRecorder`, `SearchEarlyStopping` -/

/-- **C12 (monotone in the reference point).**  Moving the reference point up (componentwise) never
decreases the dominated volume — for every point list and every number of objectives. -/
theorem C12_ref_monotone (ref ref' : List Rat) (P : List Vec) (h : wdVec ref ref' = true) :
    hv ref P ≤ hv ref' P :=
  hv_ref_mono ref ref' P h

/-- **C12 (the recorder's call is inside the quantifier).**  The reference point the recorder passes,
`np.max(-objectives, axis=0)`, has `m` coordinates and every recorded point is weakly below it —
for every non-empty history of `m`-objective jobs. -/
theorem C12_recorder_in_quantifier (m : Nat) (objs : List Vec) (hne : objs ≠ []) (hrect : Rect m objs) :
    (worst (recPts objs)).length = m ∧ ∀ p ∈ recPts objs, wdVec p (worst (recPts objs)) = true :=
  ⟨worst_length (by simpa [recPts] using hne) (rect_recPts hrect), wd_worst (rect_recPts hrect)⟩

/-- **C12 (recorder: what the code computes is the specified value), 1–5 objectives.**  For every
history, every argsort order inside the pre-filter: `hypervolume(-objectives, worst point)` as the
code computes it (`recValueCode`) is the exact hypervolume of ALL recorded objectives w.r.t. their
componentwise worst point (`recValue`).  Boundary points are the rule here (each coordinate of the
worst point is attained), which is why this rests on `C12_5d_code` / `C12_nd_code_class` and is
limited to `m ≤ 5` like them.  `hbig`: above the code's sentinel `-1.0e308`. -/
theorem C12_recorder_code (m : Nat) (objs : List Vec) (order : List Nat) (hm : 1 ≤ m) (hm5 : m ≤ 5)
    (hrect : Rect m objs) (ho : OrderOK objs.length order)
    (hbig : ∀ p ∈ recPts objs, ∀ k, k < m → negInf < co p k - co (worst (recPts objs)) k) :
    recValueCode objs order = recValue objs :=
  recValueCode_eq objs order hm hm5 hrect ho.1 ho.2 hbig

/-- **C12 (recorder: a failed job records nothing).** -/
theorem C12_recorder_failure (st : List Vec) (jobs : List (Option Vec)) :
    recStep st none = st ∧ recRun st (none :: jobs) = recValue st :: recRun st jobs :=
  ⟨rfl, rfl⟩

/-- **C12 (recorder: one more job never decreases the reported value).** -/
theorem C12_recorder_step (m : Nat) (st : List Vec) (v : Vec) (hst : Rect m st) (hv' : v.length = m) :
    leVal (recValue st) (recValue (recStep st (some v))) :=
  recValue_step st v hst hv'

/-- **C12 (recorder: monotone along every stream).**  Starting from any history, along any stream
of jobs (vectors of `m` objectives and failures, any length) the reported values never decrease:
each is `≥` the value before the stream and `≥` every earlier one (`none` = `-inf`). -/
theorem C12_recorder_monotone (m : Nat) (st : List Vec) (jobs : List (Option Vec)) (hst : Rect m st)
    (hj : ∀ v, some v ∈ jobs → v.length = m) :
    (∀ x ∈ recRun st jobs, leVal (recValue st) x) ∧ (recRun st jobs).Pairwise leVal :=
  ⟨recRun_lower jobs st hst hj, recRun_pairwise jobs st hst hj⟩

/-- **C12 (recorder: the reference point may be kept incrementally — by exact maxima).**  Along every
stream of jobs (failures anywhere, rows of any numeric kind: the model knows only their values) the
reference point maintained by one componentwise maximum per recorded job (`refRun`) is the componentwise
worst point of the whole history (`refOf` = `np.max(-objectives, axis=0)`), starting from any history.  So an
implementation that keeps the reference in a buffer reports the specified value exactly when the buffer
holds the exact maximum — not when its element type rounds or truncates what is stored. -/
theorem C12_recorder_incremental_ref (st : List Vec) (jobs : List (Option Vec)) :
    refRun (refOf st) jobs = refOf (jobs.foldl recStep st) :=
  refRun_eq jobs st

/-- one step of it: the worst point after one more job is `max(old worst point, -objective)` -/
theorem C12_recorder_ref_step (st : List Vec) (v : Vec) (hne : st ≠ []) :
    worst (recPts (st ++ [v])) = vmax (worst (recPts st)) (negVec v) := by
  rw [recPts_append]
  exact worst_snoc (negVec v) (by simpa [recPts] using hne)

/-- the evaluator the driver runs for a stream is the specification -/
theorem C12_recorder_fast (st : List Vec) (jobs : List (Option Vec)) :
    recRunFast st jobs = recRun st jobs :=
  recRunFast_eq jobs st

/-- **C12 (early stopping: an improvement restarts the patience).**  When the reported hypervolume
strictly improves on the best one so far, `SearchEarlyStopping` (patience ≥ 1) takes it as the new
best, resets its counter and does not change `search_stopped`. -/
theorem C12_stopper_improving (patience : Nat) (thr : Option Rat) (s : Stopper) (v b : Option Rat)
    (hp : 0 < patience) (hb : s.best = some b) (hgt : gtVal v b = true) :
    stopStep patience thr s v = { s with best := some v, nLower := 0 } :=
  stopStep_improving patience thr s v b hp hb hgt

/-- **C12 (early stopping: only after `patience` non-improving jobs).** -/
theorem C12_stopper_patience (patience : Nat) (thr : Option Rat) (s : Stopper) (v : Option Rat)
    (h : (stopStep patience thr s v).stopped = true) :
    s.stopped = true ∨ patience ≤ (stopStep patience thr s v).nLower :=
  stopStep_stopped patience thr s v h


/-! ### non-vacuity / regression examples (evaluated by the kernel) -/

-- the spike's hand examples
example : hv [4, 4] [[1, 3], [3, 1]] = 5 := by decide +kernel
example : hv [4, 4] [[1, 3], [3, 1], [1, 3]] = 5 := by decide +kernel
example : hv [4] [[1], [2]] = 3 := by decide +kernel
example : hv [4, 4, 4] [[0, 0, 0]] = 64 := by decide +kernel
example : hv [4, 4, 4] [[0, 3, 3], [3, 0, 3], [3, 3, 0], [4, 0, 0]] = 10 := by decide +kernel
-- a point beyond the reference is clipped away, a boundary point adds nothing
example : hv [4, 4] [[5, 1], [1, 3]] = 3 := by decide +kernel
example : hv [4, 4] [[4, 1], [1, 4]] = 0 := by decide +kernel
-- hypotheses of C12_add_dominated / C12_boundary_zero / C12_translate are satisfiable
example : wdVec [1, 3] [2, 3] = true ∧ [1, 3] ∈ [[1, 3], [3, 1]] := by decide +kernel
example : ([4, 4] : List Rat)[1]? = some 4 ∧ ([1, 4] : Vec)[1]? = some 4 := by decide +kernel
example : Rect 2 [[1, 3], [3, 1]] := by intro p hp; simp at hp; rcases hp with rfl | rfl <;> rfl
-- the 2-D sweep on a shifted front with a tie in cargo[1] and a dominated point
example : sweep2 [[-1, -3], [-3, -1], [-2, -1]] = 5 ∧ hv [0, 0] [[-1, -3], [-3, -1], [-2, -1]] = 5 := by decide +kernel
example : [[-1, -3], [-3, -1], [-2, -1]].Pairwise (fun p q => co p 1 ≤ co q 1) := by decide +kernel
example : level0 [[-3], [-2]] = 3 := by decide +kernel
-- the modelled code (all three branches) on a 3-objective front
example : hypervolumeCode [[0, 3, 3], [3, 0, 3], [3, 3, 0], [4, 0, 0]] [4, 4, 4] [0, 1, 2, 3] = some 10 := by
  decide +kernel
example : OrderOK 3 [2, 0, 1] := by
  constructor
  · intro i hi; have : i = 0 ∨ i = 1 ∨ i = 2 := by omega
    rcases this with rfl | rfl | rfl <;> simp
  · intro i hi; simp at hi; omega
example : meets [[1, 3]] [[3, 1], [2, 2]] = [[3, 3], [2, 3]] := by decide +kernel
-- hypotheses of C12_4d_code: 4 objectives with points ON the reference boundary (every objective)
example : (∀ p ∈ ([[4, 1, 2, 0], [0, 4, 1, 2], [2, 0, 4, 1], [1, 2, 0, 4]] : List Vec), wdVec p [4, 4, 4, 4] = true) ∧
    (∀ p ∈ ([[4, 1, 2, 0], [0, 4, 1, 2], [2, 0, 4, 1], [1, 2, 0, 4]] : List Vec), ∀ k, k < 4 → negInf < co p k - co [4, 4, 4, 4] k) ∧
    hypervolumeCode [[4, 1, 2, 0], [0, 4, 1, 2], [2, 0, 4, 1], [1, 2, 0, 4]] [4, 4, 4, 4] [0, 1, 2, 3] = some 0 ∧
    hypervolumeCode [[3, 1, 2, 0], [0, 4, 1, 2], [2, 0, 3, 1], [1, 2, 0, 4]] [4, 4, 4, 4] [0, 1, 2, 3] = some 39 ∧
    hv [4, 4, 4, 4] [[3, 1, 2, 0], [0, 4, 1, 2], [2, 0, 3, 1], [1, 2, 0, 4]] = 39 := by
  decide +kernel
-- hypotheses of C12_5d_code: 5 objectives with points ON the reference boundary in objective 3 (and others);
-- the nodes [1,2,0,4,1] and [0,3,1,4,2] are flagged at the top level without a dominating node; the second one is then
-- skipped at level 2 on the linked set {[1,2,0,4,1], [0,3,1,4,2]} (copied area 6, exact cross-section 7), and a flag of
-- level 2 is set from values that are not exact (`GarbZ`)
example : (∀ p ∈ ([[3, 1, 2, 0, 1], [0, 3, 1, 4, 2], [2, 0, 3, 1, 0], [1, 2, 0, 4, 1], [1, 1, 1, 4, 3]] : List Vec),
      wdVec p [4, 4, 4, 4, 4] = true) ∧
    (∀ p ∈ ([[3, 1, 2, 0, 1], [0, 3, 1, 4, 2], [2, 0, 3, 1, 0], [1, 2, 0, 4, 1], [1, 1, 1, 4, 3]] : List Vec),
      ∀ k, k < 5 → negInf < co p k - co [4, 4, 4, 4, 4] k) ∧
    hypervolumeCode [[3, 1, 2, 0, 1], [0, 3, 1, 4, 2], [2, 0, 3, 1, 0], [1, 2, 0, 4, 1], [1, 1, 1, 4, 3]] [4, 4, 4, 4, 4]
      [0, 1, 2, 3, 4] = some 141 ∧
    hv [4, 4, 4, 4, 4] [[3, 1, 2, 0, 1], [0, 3, 1, 4, 2], [2, 0, 3, 1, 0], [1, 2, 0, 4, 1], [1, 1, 1, 4, 3]] = 141 := by
  decide +kernel
-- hypotheses of C12_nd_code_interior: 5 objectives, strictly inside the box, above the sentinel
example : (∀ p ∈ ([[0, 1, 1, 1, 0], [0, 0, 2, 2, 0], [0, 1, 1, 0, 1]] : List Vec), ltVec p [3, 3, 3, 3, 3] = true) ∧
    (∀ p ∈ ([[0, 1, 1, 1, 0], [0, 0, 2, 2, 0], [0, 1, 1, 0, 1]] : List Vec), ∀ k, k < 5 → negInf < co p k - co [3, 3, 3, 3, 3] k) := by
  decide +kernel
-- hypotheses of C12_3d_code: a rectangular 3-objective set below the reference, above the sentinel
example : (∀ p ∈ [[0, 3, 3], [3, 0, 3], [3, 3, 0], [4, 0, 0]], wdVec p [4, 4, 4] = true) ∧
    (∀ p ∈ ([[0, 3, 3], [3, 0, 3], [3, 3, 0], [4, 0, 0]] : List Vec), negInf < co p 2 - 4) := by
  decide +kernel
example : hv [4, 4, 4] [[0, 3, 3], [3, 0, 3], [3, 3, 0], [4, 0, 0]] = 10 ∧
    sweepSum (fun X => hv [4, 4] (X.map List.tail)) 4 [] [0, 3, 3] [[3, 0, 3], [3, 3, 0], [4, 0, 0]] = 10 := by
  decide +kernel

/-! ### the recorder: non-vacuity and regression examples -/

-- a stream with failures: `-inf` before the first numeric objective, unchanged by a failure
example : recRun [] [none, some [1, 2], none, some [2, 1], some [0, 0], some [3, 3]] =
    [none, some 0, some 0, some 0, some 3, some 9] := by decide +kernel
example : recRunFast [] [none, some [1, 2], none, some [2, 1], some [0, 0], some [3, 3]] =
    [none, some 0, some 0, some 0, some 3, some 9] := by decide +kernel
-- hypotheses of C12_recorder_monotone / C12_recorder_code are satisfiable
example : Rect 2 [[5, 0], [0, 5], [4, 4], [-3, 1], [1, -3], [-2, -2]] := by
  intro p hp; simp at hp; rcases hp with rfl | rfl | rfl | rfl | rfl | rfl <;> rfl
example : ∀ p ∈ recPts [[5, 0], [0, 5], [4, 4], [-3, 1], [1, -3], [-2, -2]], ∀ k, k < 2 →
    negInf < co p k - co (worst (recPts [[5, 0], [0, 5], [4, 4], [-3, 1], [1, -3], [-2, -2]])) k := by
  decide +kernel
example : recValueCode [[5, 0], [0, 5], [4, 4], [-3, 1], [1, -3], [-2, -2]] [0, 1, 2, 3, 4, 5] = some 55 ∧
    recValue [[5, 0], [0, 5], [4, 4], [-3, 1], [1, -3], [-2, -2]] = some 55 := by decide +kernel
-- dominated rows matter: the worst point (3,3) is made of coordinates of two different dominated
-- rows; a history reduced to the front plus the single worst-sum row has another reference point
-- and a smaller value (so no recorded row may be dropped, however long the history)
example : worst (recPts [[5, 0], [0, 5], [4, 4], [-3, 1], [1, -3], [-2, -2]]) = [3, 3] ∧
    recValue [[5, 0], [0, 5], [4, 4], [-2, -2]] = some 40 := by decide +kernel
-- C12_recorder_incremental_ref / C12_recorder_ref_step: integer-valued first job, non-integral later ones, a failure in between
example : refRun (refOf []) [some [1, 2], none, some [1/2, 5/2], some [3/4, 1/4]] = some [-1/2, -1/4] ∧
    refOf ([some [1, 2], none, some [1/2, 5/2], some [3/4, 1/4]].foldl recStep []) = some [-1/2, -1/4] := by decide +kernel
example : ([[1, 2]] : List Vec) ≠ [] ∧ vmax (worst (recPts [[1, 2]])) (negVec [1/2, 5/2]) = [-1/2, -2] := by decide +kernel
-- regression (numeric kinds): history (1, 2), (0.5, 2.5).  The worst point is (-1/2, -2) and the value 0; with the
-- reference kept in an integer buffer (-0.5 stored as 0) the reported number would be the hypervolume w.r.t. (0, -2) = 1/4
example : recRun [] [some [1, 2], some [1/2, 5/2]] = [some 0, some 0] ∧
    hv [0, -2] (recPts [[1, 2], [1/2, 5/2]]) = 1/4 := by decide +kernel
-- hypotheses of C12_ref_monotone
example : wdVec [2, 2] [3, 3] = true ∧ hv [2, 2] [[-4, -4], [-5, 0]] = 38 ∧ hv [3, 3] [[-4, -4], [-5, 0]] = 52 := by
  decide +kernel
-- early stopping, patience 2: stops at the second non-improving job after the last improvement
example : (stopRun 2 none Stopper.init [none, some 1, some 1, some 2, some 2, some 2]).map (fun s => (s.nLower, s.stopped)) =
    [(0, false), (0, false), (1, false), (0, false), (1, false), (2, true)] := by decide +kernel
example : (stopRun 2 (some 5) Stopper.init [some 1, some 1, some 1, some 6, some 6, some 6]).map (fun s => (s.nLower, s.stopped)) =
    [(0, false), (1, false), (2, false), (0, false), (1, false), (2, true)] := by decide +kernel
example : gtVal (some 2) (some 1) = true ∧ (0 : Nat) < 2 := by decide +kernel

/-! ### regression: the two defects of the pinned `_hv.py` (model with the repairs switched off) -/

-- stale area initialisation (fixed by 9767936): 3 points, 6 objectives; pinned code says 6
example : hypervolumeCodeV false false
    [[1, 2, 1, 0, 1, 1], [0, 1, 0, 1, 1, 1], [1, 0, 2, 2, 2, 1]] [2, 2, 2, 2, 2, 2] [0, 1, 2] = some 6 := by
  decide +kernel
example : hypervolumeCode
    [[1, 2, 1, 0, 1, 1], [0, 1, 0, 1, 1, 1], [1, 0, 2, 2, 2, 1]] [2, 2, 2, 2, 2, 2] [0, 1, 2] = some 4 := by
  decide +kernel
example : hv [2, 2, 2, 2, 2, 2] [[1, 2, 1, 0, 1, 1], [0, 1, 0, 1, 1, 1], [1, 0, 2, 2, 2, 1]] = 4 := by
  decide +kernel
-- circular ignore flags on tied coordinates (fixed by ecd8f06): 3 points, 5 objectives; pinned says 93
example : hypervolumeCodeV false false
    [[0, 1, 1, 1, 0], [0, 0, 2, 2, 0], [0, 1, 1, 0, 1]] [3, 3, 3, 3, 3] [0, 1, 2] = some 93 := by
  decide +kernel
example : hypervolumeCodeV true false
    [[0, 1, 1, 1, 0], [0, 0, 2, 2, 0], [0, 1, 1, 0, 1]] [3, 3, 3, 3, 3] [0, 1, 2] = some 93 := by
  decide +kernel
example : hypervolumeCode
    [[0, 1, 1, 1, 0], [0, 0, 2, 2, 0], [0, 1, 1, 0, 1]] [3, 3, 3, 3, 3] [0, 1, 2] = some 105 := by
  decide +kernel
example : hv [3, 3, 3, 3, 3] [[0, 1, 1, 1, 0], [0, 0, 2, 2, 0], [0, 1, 1, 0, 1]] = 105 := by
  decide +kernel

end DH.Hypervolume
