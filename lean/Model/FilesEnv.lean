import Model.Files

/-!
# The environment of the process: which file system a path is on (property C15)

`Model/Files.lean` describes ONE directory.  A process also has an environment that decides where other
paths are: the system temporary directory (`TMPDIR`, `tempfile.gettempdir()`), the working directory, a
`log_dir` given as a relative path.  What matters for crash safety is the mount layout, because
`rename(2)` — the only call that puts a complete file under a name atomically — works inside one file
system only: across two it fails with `EXDEV` and changes nothing, and the library routines that hide this
(`shutil.move`) fall back to copy + unlink: the destination is opened with `O_TRUNC`, filled chunk by chunk,
closed.

Modelled here:

* `Mounts` = where each name outside `log_dir` (`Name.other s`) is mounted; the result files of `log_dir`
  itself (`results`, `tmp`, `backup …`) are siblings in one directory, hence on one file system (`devOf`);
* `stepIn m` / `opOkIn m`: the system calls of `Model/Files.lean` in a mount layout (`rename` across file
  systems fails and changes nothing, everything else is `step`);
* `moveOps m src dst c sizes`: the system calls of `shutil.move(src, dst)` when `src` holds `c`
  (`os.rename`; on `EXDEV` `copyfile`: open `src`, open `dst` for writing = create/truncate, copy in chunks
  — `sizes` as for every write —, close both; the `unlink(src)` that follows concerns `src`'s directory only
  and is left out).

The code under test (after the repairs) never leaves `log_dir`: its temporary file is `results.csv.tmp`, a
sibling of `results.csv`.  `Props/C15.lean` proves that (`C15_protocol_stays_in_log_dir`), that such calls do
the same in every mount layout (`C15_mounts_irrelevant`), and what a publish step through a file of another
directory would do (`C15_move_same_device`, `C15_move_other_device`).  Core Lean only.
-/

namespace DH.Files

/-- a file system, as far as `rename(2)` can tell: the one `log_dir` is on, or another one -/
inductive Dev
  | logDev
  | otherDev
  deriving DecidableEq, Repr

/-- the mount layout: where each path outside `log_dir` is (TMPDIR, the working directory, …) -/
abbrev Mounts := String → Dev

/-- the names of `log_dir`'s own result files are entries of one directory -/
def devOf (m : Mounts) : Name → Dev
  | .other s => m s
  | _ => .logDev

def nameLocal : Name → Bool
  | .other _ => false
  | _ => true

/-- the call names only result files of `log_dir` itself -/
def opLocal : Op → Bool
  | .openW n => nameLocal n
  | .openA n => nameLocal n
  | .openR n => nameLocal n
  | .write n _ => nameLocal n
  | .close n => nameLocal n
  | .rename a b => nameLocal a && nameLocal b

def evLocal : Ev → Bool
  | .sys op => opLocal op
  | _ => true

/-- effect of one system call in a mount layout: `rename` across file systems is `EXDEV` -/
def stepIn (m : Mounts) (fs : FS) : Op → FS
  | .rename a b => if devOf m a = devOf m b then step fs (.rename a b) else fs
  | op => step fs op

def opOkIn (m : Mounts) (fs : FS) : Op → Bool
  | .rename a b => decide (devOf m a = devOf m b) && opOk fs (.rename a b)
  | op => opOk fs op

def runOps (m : Mounts) (fs : FS) (ops : List Op) : FS := ops.foldl (stepIn m) fs

/-- `shutil.move(src, dst)` for a `src` that holds `c` -/
def moveOps (m : Mounts) (src dst : Name) (c : Content) (sizes : List Nat) : List Op :=
  if devOf m src = devOf m dst then [.rename src dst]
  else [.rename src dst, .openR src, .openW dst] ++ (chunk sizes c).map (Op.write dst) ++ [.close dst, .close src]

/-- the directory after every prefix of a list of calls (the empty prefix first) -/
def scanOps (m : Mounts) (fs : FS) : List Op → List FS
  | [] => [fs]
  | op :: ops => fs :: scanOps m (stepIn m fs op) ops

end DH.Files
