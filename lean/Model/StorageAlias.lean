import Model.Storage

/-!
# Object identities in `MemoryStorage`: who shares what with whom

`Model/Storage.lean` is a model over *values*: there a returned value cannot alias the store.  The Python object is
different: `store_job` / `store_job_metadata` keep the very object they are given, `store_job_metadata` changes a
dict in place (`job["metadata"][key] = value`), `load_jobs` hands out the live job dicts, and `load_job` /
`load_search` return `copy.deepcopy(...)`.  Whether a caller who *edits* what a load returned, or *hands it back* to
the storage, can change what later loads answer is a question about object identities.  This file models exactly
that part: the job table (`job_id ↦ job dict`; searches and their counters are `Model/Storage.lean`'s business and
play no role for sharing) as a forest of Python objects in which every mutable container (dict / list) carries its
identity (`id(obj)`).

* `RVal` — a Python value; `dict` and `list` nodes carry an identity, tuples and atoms are immutable.
  The same identity at two places = the same object reachable along two paths (values are acyclic: a container never
  contains itself).
* an in-place change of the object with identity `a` (`RVal.edit a e`) is applied to *every* tree of the world
  (`World.editAll`): the store's tables and everything the caller holds — that is what sharing means.
* `copy.deepcopy` = `RVal.copy n`: the same tree with new identities `n, n+1, …` (`World.next` is the allocator:
  any supply of identities not in use).  (deepcopy's memo keeps sharing *inside* the copied tree; the model copies a
  tree, so it speaks about job tables in which no object occurs twice — the invariant `Inv.nodup`, which holds as long
  as the caller does not store one object at two places.)

Core Lean only besides `Model.Storage` (for `Val`, `aget`, `aset`, `Err`, `newJob`).
-/

namespace DH.Storage

/-- the values without parts -/
inductive Atom where
  | none
  | bool (b : Bool)
  | int (i : Int)
  | num (q : Rat)
  | str (s : String)
  deriving Repr, Inhabited

def Atom.toVal : Atom → Val
  | .none => .none
  | .bool b => .bool b
  | .int i => .int i
  | .num q => .num q
  | .str s => .str s

/-- a Python value with the identity of every mutable container in it -/
inductive RVal where
  | atom (v : Atom)                                 -- None / bool / int / float / str
  | list (a : Nat) (l : List RVal)
  | tuple (l : List RVal)
  | dict (a : Nat) (kv : List (String × RVal))
  deriving Repr, Inhabited

mutual
/-- the value, identities forgotten -/
def RVal.erase : RVal → Val
  | .atom v => v.toVal
  | .list _ l => .list (RVal.eraseL l)
  | .tuple l => .tuple (RVal.eraseL l)
  | .dict _ kv => .dict (RVal.eraseKV kv)
def RVal.eraseL : List RVal → List Val
  | [] => []
  | x :: r => x.erase :: RVal.eraseL r
def RVal.eraseKV : List (String × RVal) → List (String × Val)
  | [] => []
  | (k, x) :: r => (k, x.erase) :: RVal.eraseKV r
end

mutual
/-- the identities of all mutable containers in the value (with repetitions if an object occurs twice) -/
def RVal.addrs : RVal → List Nat
  | .atom _ => []
  | .list a l => a :: RVal.addrsL l
  | .tuple l => RVal.addrsL l
  | .dict a kv => a :: RVal.addrsKV kv
def RVal.addrsL : List RVal → List Nat
  | [] => []
  | x :: r => x.addrs ++ RVal.addrsL r
def RVal.addrsKV : List (String × RVal) → List Nat
  | [] => []
  | (_, x) :: r => x.addrs ++ RVal.addrsKV r
end

mutual
/-- an identity above every identity in the value -/
def RVal.sup : RVal → Nat
  | .atom _ => 0
  | .list a l => max (a + 1) (RVal.supL l)
  | .tuple l => RVal.supL l
  | .dict a kv => max (a + 1) (RVal.supKV kv)
def RVal.supL : List RVal → Nat
  | [] => 0
  | x :: r => max x.sup (RVal.supL r)
def RVal.supKV : List (String × RVal) → Nat
  | [] => 0
  | (_, x) :: r => max x.sup (RVal.supKV r)
end

mutual
/-- `copy.deepcopy`: the same tree, every container a new object (identities `n, n+1, …`); returns the next free one -/
def RVal.copy (n : Nat) : RVal → RVal × Nat
  | .atom v => (.atom v, n)
  | .list _ l => let (l', m) := RVal.copyL (n + 1) l; (.list n l', m)
  | .tuple l => let (l', m) := RVal.copyL n l; (.tuple l', m)
  | .dict _ kv => let (kv', m) := RVal.copyKV (n + 1) kv; (.dict n kv', m)
def RVal.copyL (n : Nat) : List RVal → List RVal × Nat
  | [] => ([], n)
  | x :: r => let (x', m) := x.copy n; let (r', m') := RVal.copyL m r; (x' :: r', m')
def RVal.copyKV (n : Nat) : List (String × RVal) → List (String × RVal) × Nat
  | [] => ([], n)
  | (k, x) :: r => let (x', m) := x.copy n; let (r', m') := RVal.copyKV m r; ((k, x') :: r', m')
end

/-- `del d[k]` -/
def adel {α : Type} (k : String) : List (String × α) → List (String × α)
  | [] => []
  | (a, v) :: r => if a = k then r else (a, v) :: adel k r

/-- an in-place change of one container -/
inductive Edit where
  | setKey (k : String) (w : RVal)      -- `d[k] = w`
  | delKey (k : String)                 -- `del d[k]`
  | append (w : RVal)                   -- `l.append(w)`
  | clear                               -- `d.clear()` / `l.clear()`
  deriving Repr

/-- the objects an edit puts into the container -/
def Edit.addrs : Edit → List Nat
  | .setKey _ w => w.addrs
  | .append w => w.addrs
  | _ => []

def Edit.sup : Edit → Nat
  | .setKey _ w => w.sup
  | .append w => w.sup
  | _ => 0

/-- the edit applied to the container itself (a `TypeError` of the interpreter — wrong kind of container — changes nothing) -/
def Edit.apply : Edit → RVal → RVal
  | .setKey k w, .dict a kv => .dict a (aset k w kv)
  | .delKey k, .dict a kv => .dict a (adel k kv)
  | .append w, .list a l => .list a (l ++ [w])
  | .clear, .dict a _ => .dict a []
  | .clear, .list a _ => .list a []
  | _, v => v

mutual
/-- the object with identity `a` is changed in place: what every holder of a reference to it sees -/
def RVal.edit (a : Nat) (e : Edit) : RVal → RVal
  | .atom v => .atom v
  | .list b l => if b = a then e.apply (.list b (RVal.editL a e l)) else .list b (RVal.editL a e l)
  | .tuple l => .tuple (RVal.editL a e l)
  | .dict b kv => if b = a then e.apply (.dict b (RVal.editKV a e kv)) else .dict b (RVal.editKV a e kv)
def RVal.editL (a : Nat) (e : Edit) : List RVal → List RVal
  | [] => []
  | x :: r => x.edit a e :: RVal.editL a e r
def RVal.editKV (a : Nat) (e : Edit) : List (String × RVal) → List (String × RVal)
  | [] => []
  | (k, x) :: r => (k, x.edit a e) :: RVal.editKV a e r
end

/-- `obj[p0][p1]…` for string keys (dicts) — the part of a loaded object the caller picks -/
def RVal.sub : RVal → List String → Option RVal
  | v, [] => some v
  | .dict _ kv, p :: ps =>
    match aget p kv with
    | some x => x.sub ps
    | none => none
  | _, _ :: _ => none

/-! ### the world: the storage's job table and what the caller holds -/

structure World where
  next : Nat                          -- identities `≥ next` are not in use
  jobs : List (String × RVal)         -- `job_id ↦ job dict`
  held : List RVal                    -- what the loads returned to the caller (newest first)
  deriving Repr

def World.init : World := ⟨0, [], []⟩

/-- the in-place change of object `a`, seen through every reference in the world -/
def World.editAll (W : World) (a : Nat) (e : Edit) : World :=
  { next := max W.next e.sup, jobs := RVal.editKV a e W.jobs, held := RVal.editL a e W.held }

/-- the dict `create_new_job` builds: five new objects -/
def newJobR (n : Nat) : RVal :=
  .dict n [("status", .atom (.int 0)), ("in", .atom .none), ("out", .atom .none), ("metadata", .dict (n + 1) []),
    ("intermediate", .dict (n + 2) [("budget", .list (n + 3) []), ("objective", .list (n + 4) [])])]

inductive AOp where
  | newJob (jid : String)                       -- the dict of a new job (the identifier is chosen by `Model/Storage.lean`)
  | storeJob (jid key : String) (w : RVal)      -- `store_job(jid, key, w)` : keeps the object `w` itself
  | storeMeta (jid key : String) (w : RVal)     -- `store_job_metadata(jid, key, w)` : `job["metadata"][key] = w`, in place
  | loadJob (jid : String)                      -- `copy.deepcopy(job)`
  | loadAll                                     -- `copy.deepcopy(table)`   (`load_search`)
  | loadJobs (jids : List String)               -- a new dict of the LIVE job dicts
  | callerEdit (a : Nat) (e : Edit)             -- not a storage call: the caller changes an object it can reach
  deriving Repr

inductive AOut where
  | none
  | val (r : RVal)
  | error (e : Err)
  deriving Repr

/-- the live job dicts of `load_jobs` (`data[job_id] = job_data`; first unknown id: `KeyError`) -/
def collectLive {α : Type} (jobs : List (String × α)) : List String → List (String × α) → Option (List (String × α))
  | [], acc => some acc
  | jid :: r, acc =>
    match aget jid jobs with
    | none => none
    | some j => collectLive jobs r (aset jid j acc)

/-- one step of the world -/
def astep (W : World) : AOp → World × AOut
  | .newJob jid => ({ W with next := W.next + 5, jobs := aset jid (newJobR W.next) W.jobs }, .none)
  | .storeJob jid key w =>
    match aget jid W.jobs with
    | some (.dict a _) => (W.editAll a (.setKey key w), .none)
    | _ => (W, .error .keyError)
  | .storeMeta jid key w =>
    match aget jid W.jobs with
    | some (.dict _ r) =>
      match aget "metadata" r with
      | none => (W, .error .keyError)
      | some (.dict am _) => (W.editAll am (.setKey key w), .none)
      | some _ => (W, .error .typeError)
    | _ => (W, .error .keyError)
  | .loadJob jid =>
    match aget jid W.jobs with
    | none => (W, .error .keyError)
    | some j =>
      let (c, m) := j.copy W.next
      ({ W with next := m, held := c :: W.held }, .val c)
  | .loadAll =>
    let (c, m) := RVal.copyKV (W.next + 1) W.jobs
    ({ W with next := m, held := .dict W.next c :: W.held }, .val (.dict W.next c))
  | .loadJobs jids =>
    match collectLive W.jobs jids [] with
    | none => (W, .error .keyError)
    | some d => ({ W with next := W.next + 1, held := .dict W.next d :: W.held }, .val (.dict W.next d))
  | .callerEdit a e => (W.editAll a e, .none)

def arun : World → List AOp → World × List AOut
  | W, [] => (W, [])
  | W, op :: ops =>
    let (W1, o) := astep W op
    let (W2, os) := arun W1 ops
    (W2, o :: os)

/-! ### the same calls on values (what `Model/Storage.lean` does to one job table) -/

abbrev Table := List (String × Val)

inductive POut where
  | none
  | val (v : Val)
  | error (e : Err)
  deriving Repr

/-- what a call does to the table of values and what it answers; a caller's edit is no call at all -/
def pstep (T : Table) : AOp → Table × POut
  | .newJob jid => (aset jid (.dict newJob) T, .none)
  | .storeJob jid key w =>
    match aget jid T with
    | some (.dict r) => (aset jid (.dict (aset key w.erase r)) T, .none)
    | _ => (T, .error .keyError)
  | .storeMeta jid key w =>
    match aget jid T with
    | some (.dict r) =>
      match aget "metadata" r with
      | none => (T, .error .keyError)
      | some (.dict m) => (aset jid (.dict (aset "metadata" (.dict (aset key w.erase m)) r)) T, .none)
      | some _ => (T, .error .typeError)
    | _ => (T, .error .keyError)
  | .loadJob jid =>
    match aget jid T with
    | none => (T, .error .keyError)
    | some j => (T, .val j)
  | .loadAll => (T, .val (.dict T))
  | .loadJobs jids =>
    match collectLive T jids [] with
    | none => (T, .error .keyError)
    | some d => (T, .val (.dict d))
  | .callerEdit _ _ => (T, .none)

def prun : Table → List AOp → Table × List POut
  | T, [] => (T, [])
  | T, op :: ops =>
    let (T1, o) := pstep T op
    let (T2, os) := prun T1 ops
    (T2, o :: os)

/-- a storage call (as opposed to something the caller does to an object it holds) -/
def AOp.isCall : AOp → Bool
  | .callerEdit _ _ => false
  | _ => true

/-- the answers given to the storage calls of a run -/
def callOuts {α : Type} : List AOp → List α → List α
  | op :: ops, o :: os => if op.isCall then o :: callOuts ops os else callOuts ops os
  | _, _ => []

def AOut.erase : AOut → POut
  | .none => .none
  | .val r => .val r.erase
  | .error e => .error e

/-! ### what the caller may do without sharing an object between two places of the store -/

/-- the objects a call passes to the storage / an edit puts into a container -/
def AOp.passes : AOp → List Nat
  | .storeJob _ _ w => w.addrs
  | .storeMeta _ _ w => w.addrs
  | .callerEdit _ e => e.addrs
  | _ => []

/-- the discipline: (1) an object given to the storage is not already in the storage and does not contain an object twice
(the caller does not store one object at two places); (2) the caller edits in place only objects the storage does not
hold.  Objects a `load_job` / `load_search` returned satisfy (1) and (2) until they are handed back
(`C13_loaded_private`); the live dicts of `load_jobs` do not. -/
def AOp.ok (W : World) : AOp → Prop
  | .storeJob _ _ w => w.addrs.Nodup ∧ ∀ a ∈ w.addrs, a ∉ RVal.addrsKV W.jobs
  | .storeMeta _ _ w => w.addrs.Nodup ∧ ∀ a ∈ w.addrs, a ∉ RVal.addrsKV W.jobs
  | .callerEdit a _ => a ∉ RVal.addrsKV W.jobs
  | _ => True

/-! ### a third party: the running job

The storage's client in the library is the `Evaluator`.  `Evaluator._create_tasks(cfg)` makes the new job's own deep copy of
the configuration (`Job.args`: the dict the run-function later receives as `RunningJob.parameters` and may edit in place —
`RunningJob` is a `MutableMapping` over it) and gives the storage ANOTHER deep copy, wrapped as
`{"args": (copy,), "kwargs": None}` (`store_job_in`).  `submitIn` is that wrapped object, `World.submit` the step: the
parameters object joins what is held outside the storage (`held`), the wrapped copy is stored by reference. -/

/-- the two copies made at submission: (the job's parameters, the object given to the storage, next free identity) -/
def submitObjs (n : Nat) (cfg : RVal) : RVal × RVal × Nat :=
  let (p, m) := cfg.copy n
  let (c, m') := cfg.copy m
  (p, .dict m' [("args", .tuple [c]), ("kwargs", .atom .none)], m' + 1)

/-- the world after the copies are made, before the store -/
def World.withParams (W : World) (cfg : RVal) : World :=
  { W with next := (submitObjs W.next cfg).2.2, held := (submitObjs W.next cfg).1 :: W.held }

/-- submission of `cfg` for job `jid` -/
def World.submit (W : World) (jid : String) (cfg : RVal) : World × AOut :=
  astep (W.withParams cfg) (.storeJob jid "in" (submitObjs W.next cfg).2.1)

/-- the defect class: ONE deep copy — the storage is given the job's own parameters object -/
def World.submitShared (W : World) (jid : String) (cfg : RVal) : World × RVal × AOut :=
  let (p, m) := cfg.copy W.next
  let W1 : World := { W with next := m + 1, held := p :: W.held }
  let (W2, o) := astep W1 (.storeJob jid "in" (.dict m [("args", .tuple [p]), ("kwargs", .atom .none)]))
  (W2, p, o)

/-! ### the defect class: a load that hands out an object the storage keeps -/

/-- `load_job` returning a memoised copy instead of a new one: the copy is made once and kept (`memo`), every later
`load_job` of that job returns the same object -/
structure MemoWorld where
  w : World
  memo : List (String × RVal)

def MemoWorld.loadJob (M : MemoWorld) (jid : String) : MemoWorld × AOut :=
  match aget jid M.memo with
  | some c => ({ M with w := { M.w with held := c :: M.w.held } }, .val c)
  | none =>
    match astep M.w (.loadJob jid) with
    | (W', .val c) => ({ w := W', memo := aset jid c M.memo }, .val c)
    | (W', o) => ({ M with w := W' }, o)

/-- the in-place change reaches the memoised copies too -/
def MemoWorld.editAll (M : MemoWorld) (a : Nat) (e : Edit) : MemoWorld :=
  { w := M.w.editAll a e, memo := RVal.editKV a e M.memo }

end DH.Storage
