import Model.Space

/-!
# One `Space` object over a history of transformer changes (C09)

`Model/Space.lean` describes what a space does for the transformers it has.  This file describes how
a living `Space` object gets new ones: every public way the transformer of a dimension is replaced
on an existing object,

* `Dimension.set_transformer(name)` on one of `space.dimensions` (`SpaceOp.setDim`),
* `Space.set_transformer(name)` / `Space.set_transformer([name, …])` (`setAll`, `setEach`),
* `Space.set_transformer_by_type(name, cls)` (`setByType`),
* `deephyper.skopt.utils.normalize_dimensions(space.dimensions)` (`normalizeDims`: it calls
  `set_transformer("normalize")` on every dimension object and hands the same objects back),

as a state machine whose state is the list of dimensions and nothing else: `transformed_size`,
`transformed_bounds`, `transformed_n_dims`, `transform` and `inverse_transform` are the functions
of `Model/Space.lean` applied to the *current* list.  There is no other state in the code (no layout
remembered between calls), which is what the correspondence check compares after every step of a
generated history and what `C09_history_*` (Props/C09.lean) are about.

`set_transformer` keeps the declaration of the dimension (bounds, prior, categories) and replaces
the transformer; a name the kind does not know is a `ValueError` (`Real`/`Integer`: only `identity`,
`normalize`).  `Err.unsupported` marks what is outside the property: the identity transform for
categories that are not numbers of one type (the code accepts it; the property covers `identity`
for numeric categories only), as for the string matrix in `Model/Space.lean`.  The `"string"`
transformer is not modelled.  After a raising step the object is not used any further (the code has
then already changed the dimensions in front of the failing one).

Only import: the sibling model `Model.Space` (core Lean only, no Mathlib).
-/

namespace DH.Space

/-- the transformer names of the `set_transformer` methods (`"string"` is not modelled) -/
inductive TrName | identity | normalize | label | onehot
  deriving DecidableEq, Repr

/-- `Real.set_transformer` / `Integer.set_transformer` / `Categorical.set_transformer` -/
def Dim.setTransformer : Dim → TrName → Except Err Dim
  | .real lo hi p _, .identity => .ok (.real lo hi p .identity)
  | .real lo hi p _, .normalize => .ok (.real lo hi p .normalize)
  | .real _ _ _ _, _ => .error .valueError
  | .int lo hi p _, .identity => .ok (.int lo hi p .identity)
  | .int lo hi p _, .normalize => .ok (.int lo hi p .normalize)
  | .int _ _ _ _, _ => .error .valueError
  | .cat cs _, .identity =>
    if cs.all Val.isInt || cs.all Val.isNum then .ok (.cat cs .identity) else .error .unsupported
  | .cat cs _, .label => .ok (.cat cs .label)
  | .cat cs _, .onehot => .ok (.cat cs .onehot)
  | .cat cs _, .normalize => .ok (.cat cs .normalize)

/-- `dim.transform_` -/
def Dim.trName : Dim → TrName
  | .real _ _ _ .identity => .identity
  | .real _ _ _ .normalize => .normalize
  | .int _ _ _ .identity => .identity
  | .int _ _ _ .normalize => .normalize
  | .cat _ .identity => .identity
  | .cat _ .label => .label
  | .cat _ .onehot => .onehot
  | .cat _ .normalize => .normalize

/-- the class of a dimension object (`isinstance(dim, dim_type)`) -/
inductive DimKind | real | int | cat
  deriving DecidableEq, Repr

def Dim.kind : Dim → DimKind
  | .real _ _ _ _ => .real
  | .int _ _ _ _ => .int
  | .cat _ _ => .cat

/-- the same declaration (class, bounds, prior / categories); only the transformer may differ -/
def Dim.sameDecl : Dim → Dim → Bool
  | .real lo hi p _, .real lo' hi' p' _ => decide (lo = lo') && decide (hi = hi') && decide (p = p')
  | .int lo hi p _, .int lo' hi' p' _ => decide (lo = lo') && decide (hi = hi') && decide (p = p')
  | .cat cs _, .cat cs' _ => decide (cs = cs')
  | _, _ => false

/-- the ways the transformers of a living `Space` object are replaced -/
inductive SpaceOp
  | setDim (j : Nat) (t : TrName)             -- `space.dimensions[j].set_transformer(t)`
  | setAll (t : TrName)                       -- `space.set_transformer(t)`
  | setEach (ts : List TrName)                -- `space.set_transformer([t0, t1, …])`
  | setByType (k : DimKind) (t : TrName)      -- `space.set_transformer_by_type(t, cls)`
  | normalizeDims                             -- `space.dimensions = normalize_dimensions(space.dimensions)`
  deriving Repr

/-- `self.dimensions[j].set_transformer(transform[j])` for `j` in order: `IndexError` when the list
of names is too short (a longer one is not looked at past `n_dims`) -/
def setEachDims : List Dim → List TrName → Except Err (List Dim)
  | [], _ => .ok []
  | _ :: _, [] => .error .indexError
  | d :: ds, t :: ts =>
    match d.setTransformer t with
    | .error e => .error e
    | .ok d' =>
      match setEachDims ds ts with
      | .error e => .error e
      | .ok ds' => .ok (d' :: ds')

/-- `space.dimensions[j].set_transformer(t)`: the other dimension objects are not touched -/
def setAt : List Dim → Nat → TrName → Except Err (List Dim)
  | [], _, _ => .error .indexError
  | d :: ds, 0, t =>
    match d.setTransformer t with
    | .error e => .error e
    | .ok d' => .ok (d' :: ds)
  | d :: ds, j + 1, t =>
    match setAt ds j t with
    | .error e => .error e
    | .ok ds' => .ok (d :: ds')

/-- one step of the object -/
def SpaceOp.apply (dims : List Dim) : SpaceOp → Except Err (List Dim)
  | .setDim j t => setAt dims j t
  | .setAll t => mapE (fun d => d.setTransformer t) dims
  | .setEach ts => setEachDims dims ts
  | .setByType k t => mapE (fun d => if d.kind = k then d.setTransformer t else .ok d) dims
  | .normalizeDims => mapE (fun d => d.setTransformer .normalize) dims

/-- a history of steps on one object, oldest first -/
def runOps : List Dim → List SpaceOp → Except Err (List Dim)
  | dims, [] => .ok dims
  | dims, op :: ops =>
    match op.apply dims with
    | .error e => .error e
    | .ok dims' => runOps dims' ops

/-- what a caller can read of the layout of the warped space after a history: the transformer
names (`get_transformer()`), `transformed_n_dims`, the `transformed_size` of every dimension and
`transformed_bounds` — all computed from the current dimensions -/
structure Layout where
  names : List TrName
  nDims : Nat
  sizes : List Nat
  bounds : List (Rat × Rat)
  deriving Repr

def layout (L : Rat → Rat) (dims : List Dim) : Layout :=
  { names := dims.map Dim.trName, nDims := transformedNDims dims,
    sizes := dims.map Dim.transformedSize, bounds := transformedBounds L dims }

/-- the layouts seen after every step of a history (what the harness reads from the real object
after each switch); stops at the first raising step -/
def layoutsAlong (L : Rat → Rat) : List Dim → List SpaceOp → List (Except Err Layout)
  | _, [] => []
  | dims, op :: ops =>
    match op.apply dims with
    | .error e => [.error e]
    | .ok dims' => .ok (layout L dims') :: layoutsAlong L dims' ops

/-- the exception a step raised, if any -/
def errOf {α : Type} : Except Err α → Option Err
  | .error e => some e
  | .ok _ => none

end DH.Space
