/-!
# Membership in a declared search space

Model of what "being a member of the problem's declared space" means (property C02) and of the
code that is supposed to guarantee it:

* `Decl` — the declared problem (`HpProblem` / `ConfigSpace`): hyperparameters in ConfigSpace's
  own order (unconditional ones sorted by name, then conditional ones parents first), each an
  integer / real range with a uniform or log-uniform prior, or a finite list of choices
  (categorical, ordinal, constant), optional conditions (`Equals/NotEquals/LessThan/GreaterThan/
  In`, `And`, `Or`) and forbidden clauses (`ForbiddenEquals/In/And`, relations);
* `Val` — a typed Python value (`int` vs `float` vs `str` vs `bool` matters);
* `memDim`, `activeList`, `memSpace` — the property's notion of membership: declared kind and
  inclusive bounds, declared choices, canonical value (lower bound / first choice) for inactive
  hyperparameters, no forbidden clause violated (a clause does not apply to an inactive
  hyperparameter);
* `checkXInSpace` — `deephyper.skopt.utils.check_x_in_space` (`Space.__contains__`), i.e. what
  `Optimizer.tell` accepts back;
* `invDim`, `clipT`, `deactivate`, `fin` — the tail of `Optimizer._tell`:
  `np.clip(next_x, transformed_bounds)` (unless the space is all-categorical),
  `Space.inverse_transform`, `Space.deactivate_inactive_dimensions`; `tr` = `Space.transform`.
  Logarithm, power and ConfigSpace's 13-digit float rounding are *parameters* (`NumEnv`): the
  theorems hold for arbitrary functions because the code clips / validates afterwards.

The code is modelled after the fixes of branch `fix-g5`: `Real.inverse_transform` clips to
`[low, high]`; `deactivate_inactive_dimensions` drops the placeholder values of inactive
hyperparameters before ConfigSpace checks the forbidden clauses.

Core Lean only (no imports).
-/

namespace DH.Mem

/-- a Python value as it appears in a configuration -/
inductive Val
  | int (i : Int)
  | real (q : Rat)
  | str (s : String)
  | bool (b : Bool)
  deriving DecidableEq, Repr

def Val.toRat? : Val → Option Rat
  | .int i => some i
  | .real q => some q
  | .bool b => some (if b then 1 else 0)
  | .str _ => none

/-- Python `==` (numbers compare by value across `int`/`float`/`bool`; a `str` only equals the
same `str`) -/
def pyEq (a b : Val) : Bool :=
  match a, b with
  | .str s, .str t => s == t
  | .str _, _ => false
  | _, .str _ => false
  | a, b => a.toRat? == b.toRat?

inductive Prior | uniform | logUniform
  deriving DecidableEq, Repr

/-- a dimension of the declared space -/
inductive Dim
  | int (lo hi : Int) (prior : Prior)
  | real (lo hi : Rat) (prior : Prior)
  | cat (choices : List Val)        -- categorical choices / ordinal sequence / [constant]
  deriving Repr

inductive CmpOp | eq | ne | lt | gt
  deriving DecidableEq, Repr

/-- a condition under which a hyperparameter is active; parents are positions in `Decl.hps` -/
inductive Cond
  | cmp (parent : Nat) (op : CmpOp) (v : Val)
  | isIn (parent : Nat) (vs : List Val)
  | and (a b : Cond)
  | or (a b : Cond)
  deriving Repr

/-- a forbidden clause -/
inductive Forb
  | eq (hp : Nat) (v : Val)
  | isIn (hp : Nat) (vs : List Val)
  | and (a b : Forb)
  | rel (a b : Nat) (op : CmpOp)    -- ForbiddenLessThan/Equals/GreaterThanRelation (op ≠ ne)
  deriving Repr

/-- the transformer `Optimizer` uses for a dimension (depends on the surrogate model) -/
inductive Tr | identity | normalize | label | onehot
  deriving DecidableEq, Repr

structure Hp where
  name : String
  dim : Dim
  tr : Tr
  cond : Option Cond
  /-- the order in which the label encoder of a choice list numbers the choices
  (`LabelEncoder.fit`: `np.unique`, i.e. sorted, unless the categories have mixed types) -/
  enc : List Val := match dim with | .cat cs => cs | _ => []

structure Decl where
  hps : List Hp
  forbs : List Forb

abbrev Config := List Val

/-! ### membership -/

def Val.isInt : Val → Bool
  | .int _ => true
  | _ => false

def Val.isReal : Val → Bool
  | .real _ => true
  | _ => false

/-- a Python `int` or `float` (not `bool`, not `str`) -/
def Val.isNum : Val → Bool
  | .int _ | .real _ => true
  | _ => false

/-- a numeric sequence that mixes `int` and `float` values (the legal short-hand
`[1, 2.5, 4.5, 8]`): the sequence has no single kind -/
def mixedNum (cs : List Val) : Bool := cs.all Val.isNum && cs.any Val.isInt && cs.any Val.isReal

/-- being a declared choice: the choice itself (typed equality — `2.0` is not the declared `2`
of an all-`int` sequence, `True` is not the declared `1`); on a sequence that mixes ints and floats
a number equal (Python `==`) to a declared one: the numeric-ordinal "identity" transformer hands
such a sequence back as floats (`1.0` for the declared `1`), which is the declared value -/
def memChoice (cs : List Val) (v : Val) : Bool :=
  decide (v ∈ cs) || (mixedNum cs && v.isNum && cs.any (pyEq v))

/-- declared kind **and** inclusive bounds / declared choice -/
def memDim : Dim → Val → Bool
  | .int lo hi _, .int i => decide (lo ≤ i) && decide (i ≤ hi)
  | .real lo hi _, .real q => decide (lo ≤ q) && decide (q ≤ hi)
  | .cat cs, v => memChoice cs v
  | _, _ => false

/-- the canonical value of an inactive hyperparameter: lower bound / first choice
(`Dimension.bounds[0]`, `get_inactive_value_of_hyperparameter`) -/
def canon : Dim → Option Val
  | .int lo _ _ => some (.int lo)
  | .real lo _ _ => some (.real lo)
  | .cat cs => cs.head?

def idxOf (cs : List Val) (v : Val) : Option Nat := cs.findIdx? (pyEq v)

/-- how ConfigSpace compares the value `x` of a parent of dimension `d` with the constant `v`:
by value, except for ordinal parents (`<`, `>` compare positions in the sequence) -/
def cmpVal (d : Dim) (op : CmpOp) (x v : Val) : Bool :=
  let numLt (a b : Val) : Bool :=
    match d with
    | .cat cs =>
      match idxOf cs a, idxOf cs b with
      | some i, some j => decide (i < j)
      | _, _ => false
    | _ =>
      match a.toRat?, b.toRat? with
      | some p, some q => decide (p < q)
      | _, _ => false
  match op with
  | .eq => pyEq x v
  | .ne => !pyEq x v
  | .lt => numLt x v
  | .gt => numLt v x

/-- ConfigSpace evaluates a condition on the vector representation, in which an inactive parent
is `NaN`: `==`, `<`, `>`, `in` on an inactive parent are not satisfied — but `!=` is
(`NaN != value`), so a `NotEqualsCondition` on an inactive parent leaves the child active -/
def evalCond (hps : List Hp) (x : Config) (act : List Bool) : Cond → Bool
  | .cmp p op v =>
    match act[p]?, hps[p]?, x[p]? with
    | some true, some h, some xv => cmpVal h.dim op xv v
    | some false, some _, some _ => decide (op = .ne)
    | _, _, _ => false
  | .isIn p vs =>
    match act[p]?, x[p]? with
    | some true, some xv => vs.any (pyEq xv)
    | _, _ => false
  | .and a b => evalCond hps x act a && evalCond hps x act b
  | .or a b => evalCond hps x act a || evalCond hps x act b

/-- activity of the hyperparameters, computed parents first: `acc` holds the activity of the
hyperparameters already visited, so a condition can only refer to earlier positions -/
def activeGo (hps : List Hp) (x : Config) : List Hp → List Bool → List Bool
  | [], acc => acc
  | h :: rest, acc =>
    activeGo hps x rest
      (acc ++ [match h.cond with
               | none => true
               | some c => evalCond hps x acc c])

def activeList (d : Decl) (x : Config) : List Bool := activeGo d.hps x d.hps []

/-- a forbidden clause holds (is violated); atoms about inactive hyperparameters are false -/
def forbHolds (hps : List Hp) (x : Config) (act : List Bool) : Forb → Bool
  | .eq p v =>
    match act[p]?, x[p]? with
    | some true, some xv => pyEq xv v
    | _, _ => false
  | .isIn p vs =>
    match act[p]?, x[p]? with
    | some true, some xv => vs.any (pyEq xv)
    | _, _ => false
  | .and a b => forbHolds hps x act a && forbHolds hps x act b
  | .rel a b op =>
    match act[a]?, act[b]?, x[a]?, x[b]? with
    | some true, some true, some va, some vb =>
      (match va.toRat?, vb.toRat? with
       | some p, some q =>
         (match op with
          | .lt => decide (p < q)
          | .gt => decide (q < p)
          | .eq => decide (p = q)
          | .ne => false)
       | _, _ => false)
    | _, _, _, _ => false

/-- dimension-wise part of membership: active ones are members of their dimension, inactive
ones carry the canonical value; also checks the three lengths agree -/
def memAll : List Hp → List Val → List Bool → Bool
  | [], [], [] => true
  | h :: hs, v :: vs, a :: as =>
    (if a then memDim h.dim v else decide (canon h.dim = some v)) && memAll hs vs as
  | _, _, _ => false

/-- **membership in the declared space** -/
def memSpace (d : Decl) (x : Config) : Bool :=
  let act := activeList d x
  memAll d.hps x act && !(d.forbs.any (forbHolds d.hps x act))

/-- a well-formed declaration: non-empty ranges and choice lists (`Integer`/`Real` demand
`low < high`, ConfigSpace demands at least one choice) -/
def Dim.wf : Dim → Bool
  | .int lo hi _ => decide (lo ≤ hi)
  | .real lo hi _ => decide (lo ≤ hi)
  | .cat cs => !cs.isEmpty

/-- … and the label encoder only knows declared choices -/
def Hp.wf (h : Hp) : Bool :=
  h.dim.wf && (match h.dim with
               | .cat cs => h.enc.all (fun v => decide (v ∈ cs))
               | _ => true)

def Decl.wf (d : Decl) : Bool := d.hps.all (fun h => h.wf)

/-- the numeric-ordinal ("identity") transformer is only used on numeric sequences: all `int`,
all `float`, or a mix of the two (`convert_to_skopt_dim`; a mixed sequence comes back as floats) -/
def Hp.wfTr (h : Hp) : Bool :=
  match h.dim, h.tr with
  | .cat cs, .identity => cs.all Val.isNum
  | _, _ => true

/-- well-formedness used by the theorems: non-empty dimensions, numeric ordinals only under the
"identity" transformer -/
def Decl.wfAll (d : Decl) : Bool := d.wf && d.hps.all (fun h => h.wfTr)

/-- `Space.config_space is None`: no condition and no forbidden clause -/
def Decl.unconstrained (d : Decl) : Bool :=
  d.forbs.isEmpty && d.hps.all (fun h => h.cond.isNone)

/-! ### `check_x_in_space` -/

/-- `component in dim` (`Real/Integer.__contains__`: `low <= point <= high` with Python
comparisons, no kind check; `Categorical.__contains__`: `point in categories`) -/
def containsDim : Dim → Val → Bool
  | .int lo hi _, v =>
    match v.toRat? with
    | some q => decide ((lo : Rat) ≤ q) && decide (q ≤ (hi : Rat))
    | none => false
  | .real lo hi _, v =>
    match v.toRat? with
    | some q => decide (lo ≤ q) && decide (q ≤ hi)
    | none => false
  | .cat cs, v => cs.any (pyEq v)

/-- `all(component in dim for component, dim in zip(point, dims))` (zip truncates) -/
def containsAll : List Hp → List Val → Bool
  | h :: hs, v :: vs => containsDim h.dim v && containsAll hs vs
  | _, _ => true

/-- `check_x_in_space(x, space)` for one point: inside the bounds and of the right length -/
def checkXInSpace (d : Decl) (x : Config) : Bool :=
  containsAll d.hps x && (x.length == d.hps.length)

/-! ### the tail of `Optimizer._tell` -/

/-- numerics the model does not compute -/
structure NumEnv where
  lg : Rat → Rat      -- x ↦ log10(x) / log10(base)
  pw : Rat → Rat      -- t ↦ base ** t
  rnd : Rat → Rat     -- ConfigSpace: float(np.round(value, 13))

/-- `Normalize._eps` -/
def eps : Rat := 1 / 100000000

/-- `np.clip(v, lo, hi)` = `minimum(maximum(v, lo), hi)` -/
def clip (lo hi v : Rat) : Rat := min (max v lo) hi

/-- `np.round`: round half to even -/
def roundHalfEven (q : Rat) : Int :=
  let f := q.floor
  let r := q - (f : Rat)
  if r < 1 / 2 then f
  else if 1 / 2 < r then f + 1
  else if f % 2 = 0 then f else f + 1

/-- Python `int(x)` of a float: truncation toward zero -/
def trunc (q : Rat) : Int := if 0 ≤ q then q.floor else -((-q).floor)

/-- one dimension's slice of a transformed row -/
abbrev Slice := List Rat

/-- `Dimension.transformed_bounds` (one pair per transformed column) -/
def tBounds (ne : NumEnv) (h : Hp) : List (Rat × Rat) :=
  match h.dim, h.tr with
  | .cat cs, .onehot => if cs.length = 2 then [(0, 1)] else cs.map (fun _ => (0, 1))
  | .cat cs, .label => [(0, ((cs.length : Int) - 1 : Int))]
  | .cat cs, .identity =>
    -- `min(categories), max(categories)` of a numeric ordinal sequence
    match cs.filterMap Val.toRat? with
    | [] => [(0, 0)]
    | q :: qs => [(qs.foldl min q, qs.foldl max q)]
  | .cat _, .normalize => [(0, 1)]
  | _, .normalize => [(0, 1)]
  | .int lo hi .uniform, _ => [((lo : Rat), (hi : Rat))]
  | .int lo hi .logUniform, _ => [(ne.lg lo, ne.lg hi)]
  | .real lo hi .uniform, _ => [(lo, hi)]
  | .real lo hi .logUniform, _ => [(ne.lg lo, ne.lg hi)]

def clipSlice : List (Rat × Rat) → Slice → Slice
  | (lo, hi) :: bs, v :: vs => clip lo hi v :: clipSlice bs vs
  | _, vs => vs

/-- `Normalize.inverse_transform`'s range check -/
def normOK (v : Rat) : Bool := decide (v ≤ 1 + eps) && decide (0 - eps ≤ v)

/-- index of the first maximum (`np.argmax`) -/
def argmaxGo : List Rat → Nat → Nat → Rat → Nat
  | [], _, best, _ => best
  | v :: vs, i, best, bv => if bv < v then argmaxGo vs (i + 1) i v else argmaxGo vs (i + 1) best bv

def argmax : List Rat → Nat
  | [] => 0
  | v :: vs => argmaxGo vs 1 0 v

/-- a choice by (integer) position; `KeyError` / `IndexError` ↦ `none` -/
def choiceAt (cs : List Val) (i : Int) : Option Val :=
  if i < 0 then none else cs[i.toNat]?

/-- `Dimension.inverse_transform` of one slice (after the fix: `Real` clips like `Integer`) -/
def invDim (ne : NumEnv) (h : Hp) (t : Slice) : Option Val :=
  match h.dim, h.tr, t with
  -- Real
  | .real lo hi .uniform, .normalize, [v] =>
    if normOK v then some (.real (clip lo hi (v * (hi - lo) + lo))) else none
  | .real lo hi .logUniform, .normalize, [v] =>
    if normOK v then some (.real (clip lo hi (ne.pw (v * (ne.lg hi - ne.lg lo) + ne.lg lo)))) else none
  | .real lo hi .uniform, _, [v] => some (.real (clip lo hi v))
  | .real lo hi .logUniform, _, [v] => some (.real (clip lo hi (ne.pw v)))
  -- Integer: clip, then round
  | .int lo hi .uniform, .normalize, [v] =>
    if normOK v then
      some (.int (roundHalfEven (clip lo hi (roundHalfEven (v * ((hi : Rat) - lo) + lo)))))
    else none
  | .int lo hi .logUniform, .normalize, [v] =>
    if normOK v then
      some (.int (roundHalfEven (clip lo hi (ne.pw (v * (ne.lg hi - ne.lg lo) + ne.lg lo)))))
    else none
  | .int lo hi .uniform, _, [v] => some (.int (roundHalfEven (clip lo hi v)))
  | .int lo hi .logUniform, _, [v] => some (.int (roundHalfEven (clip lo hi (ne.pw v))))
  -- Categorical
  | .cat _, .label, [v] => choiceAt h.enc (roundHalfEven v)
  | .cat cs, .normalize, [v] =>
    if normOK v then choiceAt h.enc (roundHalfEven (v * (((cs.length : Int) - 1 : Int) : Rat))) else none
  | .cat cs, .onehot, t =>
    if cs.length = 2 then
      match t with
      | [v] => cs[if (1 / 2 : Rat) < v then 1 else 0]?
      | _ => none
    else if t.length = cs.length then cs[argmax t]? else none
  | .cat cs, .identity, [v] =>
    -- `Identity(type_func=int)` when every choice is an int, else the float itself
    if cs.all Val.isInt then some (.int (trunc v))
    else some (.real v)
  | _, _, _ => none

/-- `Space.is_categorical` -/
def Decl.allCat (d : Decl) : Bool :=
  d.hps.all (fun h => match h.dim with | .cat _ => true | _ => false)

def invAll (ne : NumEnv) : List Hp → List Slice → Option Config
  | [], [] => some []
  | h :: hs, t :: ts =>
    match invDim ne h t, invAll ne hs ts with
    | some v, some vs => some (v :: vs)
    | _, _ => none
  | _, _ => none

def clipAll (ne : NumEnv) : List Hp → List Slice → List Slice
  | h :: hs, t :: ts => clipSlice (tBounds ne h) t :: clipAll ne hs ts
  | _, ts => ts

/-- replace the values of inactive hyperparameters by their canonical value; ConfigSpace rounds
the floats it is given (`rnd`) -/
def canonAll (ne : NumEnv) : List Hp → List Val → List Bool → Option Config
  | [], [], [] => some []
  | h :: hs, v :: vs, a :: as =>
    let v' : Option Val :=
      if a then
        (match h.dim, v with
         | .real _ _ _, .real q => some (.real (ne.rnd q))   -- FloatHyperparameter only
         | _, w => some w)
      else canon h.dim
    match v', canonAll ne hs vs as with
    | some w, some ws => some (w :: ws)
    | _, _ => none
  | _, _, _ => none

/-- ConfigSpace's `Hyperparameter.legal_value`: inside the bounds (an integer hyperparameter
wants an integral number), one of the choices (Python `==`); the Python *kind* is not checked -/
def legalDim : Dim → Val → Bool
  | .int lo hi _, v =>
    match v.toRat? with
    | some q => decide ((lo : Rat) ≤ q) && decide (q ≤ (hi : Rat)) && decide (q = (q.floor : Rat))
    | none => false
  | .real lo hi _, v =>
    match v.toRat? with
    | some q => decide (lo ≤ q) && decide (q ≤ hi)
    | none => false
  | .cat cs, v => cs.any (pyEq v)

/-- what `ConfigSpace.Configuration(values=…)` validates once the inactive values are dropped
(and `deactivate_inactive_dimensions` has put the canonical value back) -/
def legalAll : List Hp → List Val → List Bool → Bool
  | [], [], [] => true
  | h :: hs, v :: vs, a :: as =>
    (if a then legalDim h.dim v else decide (canon h.dim = some v)) && legalAll hs vs as
  | _, _, _ => false

/-- the exceptions ConfigSpace raises while a configuration is validated -/
inductive DErr
  | illegal        -- IllegalValueError / IllegalVectorizedValueError
  | activeNotSet   -- ActiveHyperparameterNotSetError
  | forbidden      -- ForbiddenValueError
  deriving DecidableEq, Repr

/-- `Space.deactivate_inactive_dimensions` (after the fix).  With a ConfigSpace attached:
1. `drop_inactive_values`: the values of the hyperparameters that are inactive for the given
   values are dropped (here: replaced by the placeholder the method fills in at the end);
2. ConfigSpace builds a `Configuration` from the rest — floats are rounded (`rnd`) — and
   `deactivate_inactive_hyperparameters` drops what is inactive for the *rounded* values; a
   hyperparameter that is active now but was dropped in step 1 is an
   `ActiveHyperparameterNotSetError`;
3. the result is validated: legal values (`IllegalValueError`), no forbidden clause among the
   active hyperparameters (`ForbiddenValueError`).
The error says which exception is raised.  (`deactivateCS`: the steps with a ConfigSpace,
also what `RegularizedEvolution` does to a mutated configuration.) -/
def deactivateCS (ne : NumEnv) (d : Decl) (x : Config) : Except DErr Config :=
  let act1 := activeList d x
  match canonAll ne d.hps x act1 with
  | none => .error .illegal
  | some y1 =>
    let act2 := activeList d y1
    if (List.zip act1 act2).any (fun p => !p.1 && p.2) then .error .activeNotSet
    else
      match canonAll { ne with rnd := fun q => q } d.hps y1 act2 with
      | none => .error .illegal
      | some y =>
        let act := activeList d y
        if legalAll d.hps y act then
          if d.forbs.any (forbHolds d.hps y act) then .error .forbidden else .ok y
        else .error .illegal

/-- `Space.deactivate_inactive_dimensions`: the identity when no ConfigSpace is attached
(`config_space is None`: no condition, no forbidden clause), else `deactivateCS` -/
def deactivateE (ne : NumEnv) (d : Decl) (x : Config) : Except DErr Config :=
  if d.unconstrained then .ok x else deactivateCS ne d x

/-- `Space.deactivate_inactive_dimensions`: `none` = it raises (whatever the exception) -/
def deactivate (ne : NumEnv) (d : Decl) (x : Config) : Option Config :=
  (deactivateE ne d x).toOption

/-- clip → `inverse_transform` → `deactivate_inactive_dimensions` -/
def fin (ne : NumEnv) (d : Decl) (t : List Slice) : Option Config :=
  let t' := if d.allCat then t else clipAll ne d.hps t
  match invAll ne d.hps t' with
  | none => none
  | some x => deactivate ne d x

/-- `Dimension.transform` of one value -/
def trDim (ne : NumEnv) (h : Hp) (v : Val) : Slice :=
  match h.dim, h.tr, v with
  | .real lo hi .uniform, .normalize, .real q => [(q - lo) / (hi - lo)]
  | .real lo hi .logUniform, .normalize, .real q => [(ne.lg q - ne.lg lo) / (ne.lg hi - ne.lg lo)]
  | .real _ _ .uniform, _, .real q => [q]
  | .real _ _ .logUniform, _, .real q => [ne.lg q]
  | .int lo hi .uniform, .normalize, .int i => [((i : Rat) - lo) / ((hi : Rat) - lo)]
  | .int lo hi .logUniform, .normalize, .int i => [(ne.lg i - ne.lg lo) / (ne.lg hi - ne.lg lo)]
  | .int _ _ .uniform, _, .int i => [(i : Rat)]
  | .int _ _ .logUniform, _, .int i => [ne.lg i]
  | .cat _, .label, v =>
    match h.enc.findIdx? (fun c => decide (c = v)) with
    | some i => [(i : Rat)]
    | none => []
  | .cat cs, .normalize, v =>
    match h.enc.findIdx? (fun c => decide (c = v)) with
    | some i => [if cs.length ≤ 1 then 0 else (i : Rat) / (((cs.length : Int) - 1 : Int) : Rat)]
    | none => []
  | .cat cs, .onehot, v =>
    match cs.findIdx? (fun c => decide (c = v)) with
    | some i =>
      if cs.length = 2 then [(i : Rat)]
      else (List.range cs.length).map (fun j => if j = i then 1 else 0)
    | none => []
  | .cat _, .identity, v =>
    match v.toRat? with
    | some q => [q]
    | none => []
  | _, _, _ => []

/-- `Space.transform` of one row -/
def tr (ne : NumEnv) (d : Decl) (x : Config) : List Slice :=
  List.zipWith (trDim ne) d.hps x

/-- `RandomSearch._ask` / `RegularizedEvolution._ask` / the ConfigSpace branch of `Space.rvs`:
a ConfigSpace configuration holds values for its active hyperparameters only (`none` = absent);
the absent ones get `get_inactive_value_of_hyperparameter` (lower bound / first choice) -/
def fillInactive : List Hp → List (Option Val) → Option Config
  | [], [] => some []
  | h :: hs, v :: vs =>
    match (match v with | some w => some w | none => canon h.dim), fillInactive hs vs with
    | some w, some ws => some (w :: ws)
    | _, _ => none
  | _, _ => none

/-- `CBO._to_dict` -/
def toDict (d : Decl) (x : Config) : List (String × Val) :=
  List.zip (d.hps.map (·.name)) x

end DH.Mem
