import Model.Evaluator

/-!
# Several evaluators on ONE storage search — layered model of `deephyper/evaluator/_evaluator.py`

`Model/Evaluator.lean` is the model of one `Evaluator` that owns its storage search.  Here a **system** is
what the decentralised set-up of the code consists of:

* one shared storage search (`rows`): the job-id counter is `rows.length` (`create_new_job`), and for every
  job the storage keeps `"in"` (`cfg`), `"status"` (every `Job.status` read / write goes to the storage) and
  `"out"` (`sout`; written by `_on_done` → `store_job_out`, for `HPOJob`s only).  The row also carries the
  owner's `Job` object's `output` (`out`; set by the task, read by the owner only) and the history variable
  `owner` (never read by the control flow);
* any number of evaluators (`evs`) attached to that search with `Evaluator(..., storage=, search_id=)`:
  each has the private attributes of the class — `jobs` (its own `Job` objects, here their ids),
  `_tasks_running`, `job_id_submitted`, `job_id_gathered`, `jobs_done`, the event loop, the CSV header state,
  `maximum_num_jobs_submitted`, `_num_jobs_offset`, and the `Job` objects it built for other evaluators' jobs
  in `gather_other_jobs_done` (`foreign`).

A step is `(who, op)`: evaluator `who` performs one call.  Job ids are the storage's ids (global); every
function mirrors the code the same way `Model/Evaluator.lean` does, plus

* `gather_other_jobs_done` (`gatherOther`): `np.setdiff1d(all ids, job_id_submitted + job_id_gathered)` —
  sorted as the *strings* `"<search>.<k>"` (`sortIds`) —, for each candidate `job_data["out"]` truthy →
  a new `Job` object (`RUNNING → DONE` is written to the storage), `job_id_gathered`, `jobs_done`,
  `other_results`; `gather` returns `local` or `(local, other)`;
* `set_maximum_num_jobs_submitted` (`setMax`), `_num_jobs_offset`, `MaximumJobsSpawnReached` raised in the
  middle of `_create_tasks` (`createTasks`: the configurations before the raise are created, the others are
  not); `num_jobs_submitted = len(load_all_job_ids(search)) - offset` counts the **shared** search.

History variables per evaluator: `delivered` (own jobs handed back / recorded by close), `reported` (other
evaluators' jobs reported by a gather), `dumped`.  Core Lean only.
-/

namespace DH.Evaluator

/-- one job of the shared storage search (+ the `output` of its owner's `Job` object) -/
structure Row (C O : Type) where
  id : Nat
  /-- history variable: index of the evaluator that created the job -/
  owner : Nat
  /-- storage `"in"` = `Job.args` of the owner's object -/
  cfg : C
  /-- `Job.output` of the owner's object -/
  out : Option O
  /-- storage `"out"` (`store_job_out(job.id, job.objective)` in `_on_done`, `HPOJob` only) -/
  sout : Option O
  /-- storage `"status"` -/
  status : Status
  deriving DecidableEq, Repr

/-- a `Job` object built by `gather_other_jobs_done` for a job of another evaluator -/
structure Obj (C O : Type) where
  id : Nat
  cfg : C
  out : Option O
  deriving DecidableEq, Repr

/-- the single-evaluator parameters + the truth value of a stored output (`if job_data["out"]`) -/
structure MParams (C O : Type) extends Params C O where
  truthy : O → Bool

/-- private state of one evaluator -/
structure MEv (C O : Type) where
  jobs : List Nat
  running : List Task
  submitted : List Nat
  gathered : List Nat
  jobsDone : List Nat
  foreign : List (Obj C O)
  loopGen : Nat
  loopOpen : Bool
  startDumping : Bool
  columns : Bool
  /-- `maximum_num_jobs_submitted` -/
  maxSub : Int
  /-- `_num_jobs_offset` -/
  offset : Nat
  delivered : List (Nat × Via)
  reported : List Nat
  dumped : List Nat
  deriving Repr

structure Sys (C O : Type) where
  rows : List (Row C O)
  evs : List (MEv C O)
  deriving Repr

inductive MOp (C : Type)
  | submit (cfgs : List C)
  | gather (all : Bool) (k : Nat) (started : List Nat) (waits : List (List Nat))
  | close (finished : List Nat)
  | dump (flush : Bool)
  | setMax (n : Int)
  deriving Repr

inductive MOut (C O : Type)
  | unit
  /-- return value of `gather`: `local` when `other = []`, else the pair `(local, other)` -/
  | jobs (l : List (JobRec C O)) (other : List (JobRec C O))
  | rows (l : List (JobRec C O))
  | error (e : Err)
  /-- `MaximumJobsSpawnReached` out of `submit`, after `created` jobs were created -/
  | spawnMax (created : Nat)
  deriving DecidableEq, Repr

variable {C O : Type}

def MEv.init : MEv C O :=
  { jobs := [], running := [], submitted := [], gathered := [], jobsDone := [], foreign := [],
    loopGen := 0, loopOpen := false, startDumping := false, columns := false, maxSub := -1, offset := 0,
    delivered := [], reported := [], dumped := [] }

/-- a new search with `n` evaluators attached to it -/
def Sys.init (n : Nat) : Sys C O := { rows := [], evs := List.replicate n MEv.init }

/-- `num_jobs_submitted`: the jobs of the shared search minus the offset -/
def mNumSubmitted (rows : List (Row C O)) (me : MEv C O) : Int := (rows.length : Int) - me.offset
/-- `num_jobs_gathered` -/
def mNumGathered (me : MEv C O) : Int := (me.gathered.length : Int) - me.offset

def rowOf (rows : List (Row C O)) (id : Nat) : Option (Row C O) := rows.find? (fun r => r.id == id)

def updRow (rows : List (Row C O)) (id : Nat) (g : Row C O → Row C O) : List (Row C O) :=
  rows.map (fun r => if r.id = id then g r else r)

/-- what the owner sees of its job -/
def recOf (r : Row C O) : JobRec C O := { id := r.id, cfg := r.cfg, out := r.out, status := r.status }

/-! ### submit, the cap -/

/-- one iteration of `_create_tasks` past the cap test -/
def mCreateTask (who : Nat) (st : List (Row C O) × MEv C O) (c : C) : List (Row C O) × MEv C O :=
  let id := st.1.length   -- `create_new_job`: the search's job counter
  (st.1 ++ [{ id := id, owner := who, cfg := c, out := none, sout := none, status := .ready }],
   { st.2 with
     jobs := st.2.jobs ++ [id]
     submitted := st.2.submitted ++ [id]
     running := st.2.running ++ [{ id := id, gen := st.2.loopGen }] })

/-- `maximum_num_jobs_submitted > 0 and num_jobs_submitted >= maximum_num_jobs_submitted` -/
def capReached (rows : List (Row C O)) (me : MEv C O) : Bool :=
  decide (0 < me.maxSub) && decide (me.maxSub ≤ mNumSubmitted rows me)

/-- how many of `n` configurations of a submit become jobs: all of them without a cap, else
`min(n, cap - num_jobs_submitted)` (as the code defines the counter: jobs of the shared search minus the offset) -/
def mRoom (rows : List (Row C O)) (me : MEv C O) (n : Nat) : Nat :=
  if 0 < me.maxSub then min n (me.maxSub - mNumSubmitted rows me).toNat else n

/-- the `for args in args_list` loop of `_create_tasks`; `some k` = `MaximumJobsSpawnReached` was raised
before the configuration at position `k` (the jobs created before stay) -/
def mCreateTasks (who : Nat) : List (Row C O) × MEv C O → Nat → List C →
    (List (Row C O) × MEv C O) × Option Nat
  | st, _, [] => (st, none)
  | st, k, c :: cs =>
    if capReached st.1 st.2 then (st, some k) else mCreateTasks who (mCreateTask who st c) (k + 1) cs

def mSetEventLoop (me : MEv C O) : MEv C O :=
  if me.loopOpen then me else { me with loopOpen := true, loopGen := me.loopGen + 1 }

def mSubmit (who : Nat) (st : List (Row C O) × MEv C O) (cfgs : List C) :
    (List (Row C O) × MEv C O) × MOut C O :=
  match mCreateTasks who (st.1, mSetEventLoop st.2) 0 cfgs with
  | (st', none) => (st', .unit)
  | (st', some k) => (st', .spawnMax k)

/-- `set_maximum_num_jobs_submitted` -/
def mSetMax (me : MEv C O) (n : Int) : MEv C O := { me with maxSub := n, offset := me.gathered.length }

/-! ### gather: the evaluator's own tasks -/

def mMarkStarted (rows : List (Row C O)) (started : List Nat) : List (Row C O) :=
  rows.map (fun r => if started.contains r.id then { r with status := .running } else r)

def mStale (me : MEv C O) : Bool := me.running.any (fun t => t.gen != me.loopGen)

def mClampN (me : MEv C O) (n : Nat) : Nat := if n > me.running.length then me.running.length else n

def mAwaitM (me : MEv C O) (m : Nat) (waits : List (List Nat)) : Except Err (List Nat) :=
  if m = me.running.length then
    if me.running.isEmpty then .error .noJobs
    else if mStale me then .error .loopClosed
    else match waits with
      | [w] => .ok w
      | _ => .error .envStuck
  else if mStale me then .error .loopClosed
  else match waitLoop m [] waits with
    | .ok (done, []) => .ok done
    | .ok (_, _ :: _) => .error .envStuck
    | .error e => .error e

def mAwaitN (me : MEv C O) (n : Nat) (waits : List (List Nat)) : Except Err (List Nat) :=
  mAwaitM me (mClampN me n) waits

/-- one iteration of `process_local_tasks_done`; `_on_done`: `RUNNING → DONE`, and for an `HPOJob`
`store_job_out(job.id, job.objective)` -/
def mProcessOne (p : MParams C O) (via : Via) (st : List (Row C O) × MEv C O) (id : Nat) :
    Except Err ((List (Row C O) × MEv C O) × JobRec C O) :=
  if !(st.2.running.any (fun t => t.id == id)) || !(st.2.submitted.contains id) then .error .badTask
  else match rowOf st.1 id with
    | none => .error .badTask
    | some r =>
      let r' : Row C O :=
        { r with out := some (p.f r.cfg), status := if r.status = .running then .done else r.status,
                 sout := if p.hpo then some (p.f r.cfg) else r.sout }
      .ok ((updRow st.1 id (fun _ => r'),
            { st.2 with
              jobsDone := st.2.jobsDone ++ [id]
              running := st.2.running.eraseP (fun t => t.id == id)
              gathered := st.2.gathered ++ [id]
              submitted := st.2.submitted.erase id
              delivered := st.2.delivered ++ [(id, via)] }), recOf r')

def mProcessAll (p : MParams C O) (via : Via) :
    List (Row C O) × MEv C O → List Nat → (List (Row C O) × MEv C O) × Except Err (List (JobRec C O))
  | st, [] => (st, .ok [])
  | st, id :: rest =>
    match mProcessOne p via st id with
    | .error e => (st, .error e)
    | .ok (st', j) =>
      match mProcessAll p via st' rest with
      | (st'', .ok js) => (st'', .ok (j :: js))
      | (st'', .error e) => (st'', .error e)

/-- `gather` up to and including `process_local_tasks_done` -/
def mGatherLocal (p : MParams C O) (st : List (Row C O) × MEv C O) (all : Bool) (k : Nat)
    (started : List Nat) (waits : List (List Nat)) :
    (List (Row C O) × MEv C O) × Except Err (List (JobRec C O)) :=
  let size := if all then st.2.running.length else k
  if size = 0 then (st, .ok [])
  else if !st.2.loopOpen then (st, .error .noLoop)
  else match mAwaitN st.2 size waits with
    | .error e => (st, .error e)
    | .ok done => mProcessAll p .gather (mMarkStarted st.1 started, st.2) done

/-! ### gather: the jobs of the other evaluators (`gather_other_jobs_done`) -/

/-- decimal digits, most significant first -/
def digitsAux : Nat → Nat → List Nat → List Nat
  | 0, _, acc => acc
  | fuel + 1, n, acc => if n < 10 then n :: acc else digitsAux fuel (n / 10) (n % 10 :: acc)

def digits (n : Nat) : List Nat := digitsAux (n + 1) n []

/-- `a ≤ b` as strings (lexicographic, a proper prefix first) -/
def lexLe : List Nat → List Nat → Bool
  | [], _ => true
  | _ :: _, [] => false
  | a :: as, b :: bs => if a < b then true else if b < a then false else lexLe as bs

/-- order of the job ids `"<search>.<k>"` as NumPy sorts them: as strings -/
def idLe (a b : Nat) : Bool := lexLe (digits a) (digits b)

def insertId (a : Nat) : List Nat → List Nat
  | [] => [a]
  | b :: l => if idLe a b then a :: b :: l else b :: insertId a l

/-- `np.setdiff1d(...)` returns its result sorted -/
def sortIds (l : List Nat) : List Nat := l.foldr insertId []

/-- `job_id_not_gathered` -/
def otherCand (rows : List (Row C O)) (me : MEv C O) : List Nat :=
  sortIds ((List.range rows.length).filter (fun i => !(me.submitted ++ me.gathered).contains i))

def truthyOut (p : MParams C O) : Option O → Bool
  | some o => p.truthy o
  | none => false

/-- one iteration of the `for job_id in job_id_not_gathered` loop -/
def otherOne (p : MParams C O) (acc : (List (Row C O) × MEv C O) × List (JobRec C O)) (id : Nat) :
    (List (Row C O) × MEv C O) × List (JobRec C O) :=
  match rowOf acc.1.1 id with
  | none => acc
  | some r =>
    if truthyOut p r.sout then
      -- `if job.status is RUNNING: job.status = DONE` (a write to the shared storage)
      let st := if r.status = .running then Status.done else r.status
      ((updRow acc.1.1 id (fun r => { r with status := st }),
        { acc.1.2 with
          gathered := acc.1.2.gathered ++ [id]
          jobsDone := acc.1.2.jobsDone ++ [id]
          foreign := acc.1.2.foreign ++ [{ id := id, cfg := r.cfg, out := r.sout }]
          reported := acc.1.2.reported ++ [id] }),
       acc.2 ++ [{ id := id, cfg := r.cfg, out := r.sout, status := st }])
    else acc

def gatherOther (p : MParams C O) (st : List (Row C O) × MEv C O) :
    (List (Row C O) × MEv C O) × List (JobRec C O) :=
  (otherCand st.1 st.2).foldl (otherOne p) (st, [])

def mGather (p : MParams C O) (st : List (Row C O) × MEv C O) (all : Bool) (k : Nat)
    (started : List Nat) (waits : List (List Nat)) : (List (Row C O) × MEv C O) × MOut C O :=
  match mGatherLocal p st all k started waits with
  | (st1, .error e) => (st1, .error e)
  | (st1, .ok js) =>
    let r := gatherOther p st1
    (r.1, .jobs js r.2)

/-! ### close -/

def activeRow (r : Row C O) : Bool := r.status = .ready || r.status = .running

/-- the `for job in self.jobs: if job.status in [READY, RUNNING]` loop of `close` (own `Job` objects) -/
def mCancelActive (p : MParams C O) (st : List (Row C O) × MEv C O) : List (Row C O) × MEv C O :=
  let ids := st.2.jobs.filter (fun id => match rowOf st.1 id with
    | some r => activeRow r
    | none => false)
  (st.1.map (fun r =>
      if st.2.jobs.contains r.id && activeRow r then
        { r with status := .cancelled, out := if p.hpo then some p.cancelOut else r.out,
                 sout := if p.hpo then some p.cancelOut else r.sout }
      else r),
   { st.2 with
     jobsDone := st.2.jobsDone ++ ids
     gathered := st.2.gathered ++ ids
     delivered := st.2.delivered ++ ids.map (fun i => (i, Via.close)) })

def mClose (p : MParams C O) (st : List (Row C O) × MEv C O) (finished : List Nat) :
    (List (Row C O) × MEv C O) × MOut C O :=
  if !st.2.loopOpen then (st, .unit)
  else if st.2.running.isEmpty then ((st.1, { st.2 with loopOpen := false }), .unit)
  else if mStale st.2 then (st, .error .loopClosed)
  else match mProcessAll p .close st finished with
    | (st1, .error e) => (st1, .error e)
    | (st1, .ok _) =>
      let st2 := mCancelActive p st1
      ((st2.1, { st2.2 with running := [], submitted := [], loopOpen := false }), .unit)

/-! ### dump -/

def statusAt (rows : List (Row C O)) (id : Nat) : Option Status := (rowOf rows id).map (·.status)

/-- the `Job` object behind an entry of `jobs_done`: an own job, or one built by `gather_other_jobs_done`
(its status is read from the storage) -/
def lookupDone (rows : List (Row C O)) (me : MEv C O) (id : Nat) : Option (JobRec C O) :=
  if me.jobs.contains id then (rowOf rows id).map recOf
  else match me.foreign.find? (fun o => o.id == id), statusAt rows id with
    | some o, some st => some { id := id, cfg := o.cfg, out := o.out, status := st }
    | _, _ => none

def doneRecs (rows : List (Row C O)) (me : MEv C O) : List (JobRec C O) :=
  me.jobsDone.filterMap (lookupDone rows me)

def mDumpColumns (p : MParams C O) (me : MEv C O) (flush : Bool) (recs : List (JobRec C O)) : Bool :=
  if !p.hpo then true
  else if me.startDumping then me.columns
  else me.columns || flush || recs.any (isSuccess p.toParams)

def mDump (p : MParams C O) (st : List (Row C O) × MEv C O) (flush : Bool) :
    (List (Row C O) × MEv C O) × MOut C O :=
  if st.2.jobsDone.isEmpty then (st, .rows [])
  else if mDumpColumns p st.2 flush (doneRecs st.1 st.2) then
    ((st.1, { st.2 with startDumping := true, columns := true, jobsDone := [],
                        dumped := st.2.dumped ++ st.2.jobsDone }),
      .rows (doneRecs st.1 st.2))
  else (st, .rows [])

/-! ### the transition function of the system -/

def mStepLocal (p : MParams C O) (who : Nat) (st : List (Row C O) × MEv C O) :
    MOp C → (List (Row C O) × MEv C O) × MOut C O
  | .submit cfgs => mSubmit who st cfgs
  | .gather all k started waits => mGather p st all k started waits
  | .close finished => mClose p st finished
  | .dump flush => mDump p st flush
  | .setMax n => ((st.1, mSetMax st.2 n), .unit)

/-- evaluator `who` performs one call (an index without evaluator: not a behaviour, nothing happens) -/
def mStep (p : MParams C O) (s : Sys C O) (who : Nat) (op : MOp C) : Sys C O × MOut C O :=
  match s.evs[who]? with
  | none => (s, .error .envStuck)
  | some me =>
    let r := mStepLocal p who (s.rows, me) op
    ({ rows := r.1.1, evs := s.evs.set who r.1.2 }, r.2)

def mRun (p : MParams C O) : Sys C O → List (Nat × MOp C) → Sys C O × List (MOut C O)
  | s, [] => (s, [])
  | s, (who, op) :: ops =>
    let r := mStep p s who op
    let r' := mRun p r.1 ops
    (r'.1, r.2 :: r'.2)

/-! ### the contract of the environment -/

def mRunningIds (me : MEv C O) : List Nat := me.running.map (·.id)

def mWaitOk (rows : List (Row C O)) (me : MEv C O) (w : List Nat) : Bool :=
  decide w.Nodup && w.all (fun id => (mRunningIds me).contains id && statusAt rows id == some .running)

def mStartedOk (rows : List (Row C O)) (me : MEv C O) (started : List Nat) : Bool :=
  decide started.Nodup &&
    started.all (fun id => (mRunningIds me).contains id && statusAt rows id == some .ready)

def mOpOkLocal (rows : List (Row C O)) (me : MEv C O) : MOp C → Bool
  | .submit _ => true
  | .dump _ => true
  | .setMax _ => true
  | .close finished => mWaitOk rows me finished
  | .gather all k started waits =>
    let size := if all then me.running.length else k
    if size = 0 || !me.loopOpen then started.isEmpty && waits.isEmpty
    else match mAwaitN me size waits with
      | .error e => e != .envStuck && started.isEmpty && waits.isEmpty   -- raised before any wait
      | .ok done =>
        mStartedOk rows me started && waits.all (mWaitOk (mMarkStarted rows started) me) &&
        (if size ≥ me.running.length then (mRunningIds me).all done.contains else true)

def mOpOk (s : Sys C O) (who : Nat) (op : MOp C) : Bool :=
  match s.evs[who]? with
  | none => false
  | some me => mOpOkLocal s.rows me op

/-- the systems reachable from a new search with `n` evaluators by any interleaving of any calls under
the environment contract -/
inductive MReach (p : MParams C O) (n : Nat) : Sys C O → Prop
  | init : MReach p n (Sys.init n)
  | step {s : Sys C O} (who : Nat) (op : MOp C) :
      MReach p n s → mOpOk s who op = true → MReach p n (mStep p s who op).1

def mOpsOk (p : MParams C O) : Sys C O → List (Nat × MOp C) → Bool
  | _, [] => true
  | s, (who, op) :: ops => mOpOk s who op && mOpsOk p (mStep p s who op).1 ops

end DH.Evaluator
