/-!
# Model of `deephyper/skopt/optimizer/optimizer.py` (`ask` / `tell` bookkeeping) and of the
`CBO._ask` / `CBO._tell` layer of `deephyper/hpo/_cbo.py`

What is modelled: the *bookkeeping* that decides which configurations are handed out —
`self.sampled`, `_n_initial_points`, `_initial_samples`, `_next_x`, `cache_`, `_last_Xsample`,
`Xi/yi` — and every path through `Optimizer.ask`:

* single point (`n_points is None or n_points == 1`),
* initial batch (`_n_initial_points > 0 or base_estimator_ is None`),
* one-shot `topk` / `boltzmann`,
* `qLCB` / `qLCBd` (CBO's `qUCB` / `qUCBd`),
* the `cache_` hit,
* the constant-liar loop `cl_min` / `cl_mean` / `cl_max` on a `copy()` of the optimizer,

plus `copy`, `_tell` (which recomputes `_next_x`), `tell` (membership check first),
`update_next`, and the CBO layer (failures dropped with `filter_failures="ignore"`,
`update_next()` when nothing is told).

Everything the surrogate model / acquisition function / RNG decide is an explicit environment
argument:

* `cands`  — what `Space.rvs(n_points)` returned,
* `Pick`   — where the acquisition optimiser ended: `idx i` = `argmin` index into the
             duplicate-filtered candidates (acq_optimizer "sampling"), or `free t fb` = an
             arbitrary vector `t` of transformed coordinates (lbfgs / ga) with `fb` the argmin
             index used when `t` lands on an already sampled configuration,
* `orders` — `argsort`s of acquisition values (topk, qLCB per kappa) / multinomial draws
             (boltzmann).

The space is abstract (`Ops`): `tr` = `Space.transform` of one row, `fin` = clip to the
transformed bounds → `Space.inverse_transform` → `Space.deactivate_inactive_dimensions`
(`none` = the code raises), `accept` = `check_x_in_space`.  `Model/Membership.lean` gives the
concrete instance.

The code is modelled **after** the fixes of branch `fix-g5`:
topk/boltzmann return rows of the untransformed sample; qLCB records its batch and masks chosen
candidates; a `free` result that is already in `sampled` falls back on the best candidate; the random points
completing a batch of initial points are filtered against those too;
`CBO._tell` calls `update_next()` when nothing is told; `CBO._ask` calls `update_next()` when it
is called again before any tell.  `Pre` variants of the two C08 paths
(as on the pinned tree) are kept at the end for the regression witnesses.

History variables (not in the code): `nextFrom` = the candidate list `_next_x` was selected
from; each returned configuration is paired with the candidate list it was selected from
(`Sel.offered`).

Core Lean only (no imports).
-/

namespace DH.Ask

/-- what the model reports where the code raises -/
inductive Err
  | noModel      -- RuntimeError("Random evaluations exhausted and no model has been fit.")
  | emptySample  -- IndexError: `Xsamples[0]` on an empty sample
  | badIndex     -- environment index out of range (violates the argmin/argsort contract)
  | finRaises    -- inverse_transform / deactivate_inactive_dimensions raised
  | notInSpace   -- check_x_in_space raised ValueError
  | badN         -- "n_points should be int > 0"
  | envShort     -- the environment supplied too few fits / draws for this call
  deriving DecidableEq, Repr

/-- an objective as `Optimizer._tell` sees it: a number (value irrelevant here) or `"F"` -/
inductive Obj | val | fail
  deriving DecidableEq, Repr

/-- `strategy` argument of `Optimizer.ask` (after CBO's `MAP_multi_point_strategy`) -/
inductive Strategy | clMin | clMean | clMax | topk | boltzmann | qLCB | qLCBd
  deriving DecidableEq, Repr

def Strategy.isQ : Strategy → Bool
  | .qLCB | .qLCBd => true
  | _ => false

def Strategy.isOneShot : Strategy → Bool
  | .topk | .boltzmann => true
  | _ => false

section
variable {α : Type} [DecidableEq α]

/-! ### `_filter_duplicated` -/

/-- `df[~df.duplicated(keep="first")]` -/
def dedup : List α → List α
  | [] => []
  | x :: xs => x :: (dedup xs).filter (fun y => decide (y ≠ x))

/-- `Optimizer._filter_duplicated(samples)`: drop repeated rows (keep the first), anti-join with
`self.sampled`, and return the *unfiltered* input when nothing is left. -/
def filterDup (on : Bool) (sampled samples : List α) : List α :=
  if on then
    let d := (dedup samples).filter (fun s => decide (s ∉ sampled))
    if d.isEmpty then samples else d
  else samples

end

/-! ### state -/

/-- the part of `Optimizer` that decides what is handed out -/
structure Opt (α : Type) where
  filterOn : Bool                 -- acq_optimizer_kwargs["filter_duplicated"]
  dummy : Bool                    -- base_estimator_ is None ("DUMMY")
  nInit0 : Int                    -- n_initial_points_
  nInit : Int                     -- _n_initial_points
  initSamples : List α            -- _initial_samples
  sampled : List α                -- sampled
  told : List (α × Obj)           -- Xi, yi
  nextX : Option α                -- _next_x (`none`: attribute not set, no model fitted)
  nextFrom : List α               -- history variable: candidates `_next_x` was selected from
  last : Option (List α)          -- _last_Xsample (set together with _last_X / _last_values)
  cache : Option (Nat × Strategy × List (α × List α))  -- cache_ (values with their history variable)

/-- a returned configuration with the candidate list it was selected from (history variable) -/
structure Sel (α : Type) where
  x : α
  offered : List α

/-- where the optimisation of the acquisition function ended.  The acquisition values are a
function of the (duplicate-filtered) candidate array the surrogate is evaluated on, so the
environment supplies `np.argmin` as a function of that array. -/
inductive Pick (α τ : Type)
  | idx (sel : List α → Nat)
  | free (t : τ) (fb : List α → Nat)

/-- environment of one surrogate fit inside `_tell` -/
structure Fit (α τ : Type) where
  cands : List α
  pick : Pick α τ

/-- the search space as the optimizer uses it -/
structure Ops (α τ : Type) where
  tr : α → τ
  fin : τ → Option α
  accept : α → Bool

/-- one iteration of the constant-liar loop: `opt.ask()` then `opt._tell(x, lie)` -/
structure ClStep (α τ : Type) where
  askCands : List α     -- consumed only if the copy is still in its random phase
  fit : Fit α τ

/-- environment of one `Optimizer.ask` call -/
structure AskEnv (α τ : Type) where
  cands : List α                 -- rvs of `_ask_random_points` / of the qLCB branch
  copyFit : Fit α τ              -- the `_tell(Xi, yi)` inside `copy()` (constant liar)
  steps : List (ClStep α τ)      -- constant-liar iterations
  /-- index lists computed from the acquisition values on the array they are given — topk:
  `[argsort]` over `_last_Xsample`; qLCB: one argsort per kappa over the filtered candidates;
  boltzmann: `[[argmax], multinomial draws]` over `_last_Xsample` -/
  orders : List α → List (List Nat)
  /-- the refit inside `update_next()` when `CBO.ask` is called again before any `tell` -/
  refresh : Fit α τ

section
variable {α τ : Type} [DecidableEq α]

def Opt.init (filterOn dummy : Bool) (nInit : Int) (initSamples : List α) : Opt α :=
  { filterOn, dummy, nInit0 := nInit, nInit, initSamples, sampled := [], told := [],
    nextX := none, nextFrom := [], last := none, cache := none }

/-- still handing out initial / random points -/
def Opt.randomPhase (s : Opt α) : Bool := decide (s.nInit > 0) || s.dummy

/-! ### `_tell` -/

/-- the `if fit and self._n_initial_points <= 0 and self.base_estimator_ is not None:` block:
sample candidates, filter them, minimise the acquisition function, set `_next_x`. -/
def fit (ops : Ops α τ) (s : Opt α) (e : Fit α τ) : Except Err (Opt α) :=
  let f := filterDup s.filterOn s.sampled e.cands
  let fromIdx (i : Nat) : Except Err α :=
    match f[i]? with
    | none => .error .badIndex
    | some c => match ops.fin (ops.tr c) with
      | none => .error .finRaises
      | some x => .ok x
  let r : Except Err α :=
    match e.pick with
    | .idx sel => fromIdx (sel f)
    | .free t fb =>
      match ops.fin t with
      | none => .error .finRaises
      | some x => if s.filterOn && decide (x ∈ s.sampled) then fromIdx (fb f) else .ok x
  match r with
  | .error err => .error err
  | .ok x => .ok { s with nextX := some x, nextFrom := e.cands, last := some f }

def nonFail (xs : List (α × Obj)) : Nat := (xs.filter (fun p => p.2 != Obj.fail)).length

/-- the state `_tell` is in before it decides whether to fit -/
def told1 (s : Opt α) (xs : List (α × Obj)) : Opt α :=
  { s with told := s.told ++ xs, nInit := s.nInit - (nonFail xs : Nat), cache := none }

/-- `Optimizer._tell(x, y)` (batch or single form: `xs` lists the told pairs) -/
def tellCore (ops : Ops α τ) (s : Opt α) (xs : List (α × Obj)) (e : Fit α τ) : Except Err (Opt α) :=
  let s1 : Opt α := { s with told := s.told ++ xs, nInit := s.nInit - (nonFail xs : Nat), cache := none }
  if s1.nInit ≤ 0 ∧ s1.dummy = false then fit ops s1 e else .ok s1

/-- `Optimizer.tell(x, y)`: `check_x_in_space` first -/
def tell (ops : Ops α τ) (s : Opt α) (xs : List (α × Obj)) (e : Fit α τ) : Except Err (Opt α) :=
  if xs.all (fun p => ops.accept p.1) then tellCore ops s xs e else .error .notInSpace

/-- the fresh optimizer `copy()` builds before it is told the history -/
def copy0 (s : Opt α) : Opt α :=
  { s with nInit := s.nInit0, told := [], nextX := none, nextFrom := [], last := none, cache := none }

/-- `Optimizer.copy()`: a new optimizer that inherits `sampled[:]` and `_initial_samples` and is
told everything the original was told (which refits and recomputes its own `_next_x`). -/
def copy (ops : Ops α τ) (s : Opt α) (e : Fit α τ) : Except Err (Opt α) :=
  let c : Opt α := { s with nInit := s.nInit0, told := [], nextX := none, nextFrom := [],
                            last := none, cache := none }
  if s.told.isEmpty then .ok c else tellCore ops c s.told e

/-- `Optimizer.update_next()` -/
def updateNext (ops : Ops α τ) (s : Opt α) (e : Fit α τ) : Except Err (Opt α) :=
  let s1 : Opt α := { s with cache := none }
  match s.nextX with
  | none => .ok s1
  | some _ =>
    match copy ops s1 e with
    | .error err => .error err
    | .ok c =>
      match c.nextX with
      | none => .error .noModel      -- AttributeError: the copy has no `_next_x`
      | some y => .ok { s1 with nextX := some y, nextFrom := c.nextFrom }

/-! ### `ask` -/

/-- `ask()` / `ask(n_points=1)`: `_ask()` then `self.sampled.append(x)` -/
def askOne (s : Opt α) (cands : List α) : Except Err (Opt α × Sel α) :=
  if s.randomPhase then
    match s.initSamples with
    | [] =>
      match filterDup s.filterOn s.sampled cands with
      | [] => .error .emptySample
      | x :: _ => .ok ({ s with sampled := s.sampled ++ [x] }, ⟨x, cands⟩)
    | x :: rest => .ok ({ s with initSamples := rest, sampled := s.sampled ++ [x] }, ⟨x, []⟩)
  else
    match s.nextX with
    | none => .error .noModel
    | some x => .ok ({ s with sampled := s.sampled ++ [x] }, ⟨x, s.nextFrom⟩)

/-- initial batch: `_initial_samples[:k] + _ask_random_points(size=n-k)`; the initial points
(given by the user or pre-computed by a design) are recorded in `sampled` before the random
points that complete the batch are drawn, so that those also differ from them -/
def askInitBatch (s : Opt α) (n : Nat) (cands : List α) : Opt α × List (Sel α) :=
  let k := min s.initSamples.length n
  let a := s.initSamples.take k
  let b := (filterDup s.filterOn (s.sampled ++ a) cands).take (n - k)
  ({ s with initSamples := s.initSamples.drop k, sampled := s.sampled ++ (a ++ b) },
   a.map (fun x => ⟨x, []⟩) ++ b.map (fun x => ⟨x, cands⟩))

/-- rows `idx` of `_last_Xsample` (`IndexError` if an index is out of range) -/
def rows (l : List α) : List Nat → Except Err (List α)
  | [] => .ok []
  | i :: is =>
    match l[i]? with
    | none => .error .badIndex
    | some x =>
      match rows l is with
      | .error e => .error e
      | .ok r => .ok (x :: r)

/-- `topk`: the `n` best rows of the last candidate sample -/
def askTopk (s : Opt α) (n : Nat) (l : List α) (order : List Nat) : Except Err (Opt α × List (Sel α)) :=
  match rows l (order.take n) with
  | .error e => .error e
  | .ok X => .ok ({ s with sampled := s.sampled ++ X }, X.map (fun x => ⟨x, l⟩))

/-- the `while len(idx) < n_points` loop of `boltzmann` over the multinomial draws -/
def boltzLoop (on : Bool) (n : Nat) (l : List α) :
    List Nat → List Nat → Nat → List α → Except Err (List Nat × List α)
  | draws, idx, trials, smp =>
    if idx.length ≥ n then .ok (idx, smp) else
    match draws with
    | [] => .error .envShort
    | d :: ds =>
      if on && idx.contains d && decide (trials < 100) then boltzLoop on n l ds idx (trials + 1) smp
      else match l[d]? with
        | none => .error .badIndex
        | some x => boltzLoop on n l ds (idx ++ [d]) trials (smp ++ [x])

def askBoltzmann (s : Opt α) (n : Nat) (l : List α) (orders : List (List Nat)) :
    Except Err (Opt α × List (Sel α)) :=
  match orders with
  | [i0] :: rest =>
    match boltzLoop s.filterOn n l (rest.headD []) [i0] 0 s.sampled with
    | .error e => .error e
    | .ok (idx, smp) =>
      match rows l idx with
      | .error e => .error e
      | .ok X => .ok ({ s with sampled := smp }, X.map (fun x => ⟨x, l⟩))
  | _ => .error .envShort

/-- `np.argmin` of the acquisition values with the already chosen candidates masked by `inf`
(while some candidate is left): the first index of the preference `order` (the argsort of the
values; entries `≥ m`, the number of candidates, are ignored) not chosen yet, else the plain
argmin `order[0]`. -/
def pickQ (m : Nat) (order chosen : List Nat) : Option Nat :=
  match order.find? (fun i => decide (i < m) && !chosen.contains i) with
  | some i => some i
  | none => order.head?

/-- the `for kappa in kappas` loop of the qLCB branch -/
def qLoop (f : List α) : List (List Nat) → List Nat → List α → Except Err (List α)
  | [], _, acc => .ok acc
  | o :: os, chosen, acc =>
    match pickQ f.length o chosen with
    | none => .error .badIndex
    | some i =>
      match f[i]? with
      | none => .error .badIndex
      | some x => qLoop f os (chosen ++ [i]) (acc ++ [x])

/-- `qLCB` / `qLCBd`: `_next_x` first (recorded), then one masked argmin per kappa over freshly
sampled, duplicate-filtered candidates (all recorded) -/
def askQ (s : Opt α) (n : Nat) (x0 : α) (cands : List α) (orders : List α → List (List Nat)) :
    Except Err (Opt α × List (Sel α)) :=
  let smp1 := s.sampled ++ [x0]
  let f := filterDup s.filterOn smp1 cands
  match qLoop f ((orders f).take (n - 1)) [] [] with
  | .error e => .error e
  | .ok X =>
    if X.length = n - 1 then
      .ok ({ s with sampled := smp1 ++ X }, ⟨x0, s.nextFrom⟩ :: X.map (fun x => ⟨x, cands⟩))
    else .error .envShort

/-- the `for i in range(n_points)` constant-liar loop on the copy `opt`; `smp` is `self.sampled` -/
def clLoop (ops : Ops α τ) : Nat → List (ClStep α τ) → Opt α → List α → List (Sel α) →
    Except Err (List α × List (Sel α))
  | 0, _, _, smp, X => .ok (smp, X)
  | k + 1, steps, opt, smp, X =>
    match steps with
    | [] => .error .envShort
    | st :: rest =>
      match askOne opt st.askCands with
      | .error e => .error e
      | .ok (opt1, sel) =>
        if k = 0 then .ok (smp ++ [sel.x], X ++ [sel])
        else
          match tellCore ops opt1 [(sel.x, Obj.val)] st.fit with
          | .error e => .error e
          | .ok opt2 => clLoop ops k rest opt2 (smp ++ [sel.x]) (X ++ [sel])

def askCL (ops : Ops α τ) (s : Opt α) (n : Nat) (strat : Strategy) (env : AskEnv α τ) :
    Except Err (Opt α × List (Sel α)) :=
  match copy ops s env.copyFit with
  | .error e => .error e
  | .ok opt =>
    match clLoop ops n env.steps opt s.sampled [] with
    | .error e => .error e
    | .ok (smp, X) =>
      .ok ({ s with sampled := smp, cache := some (n, strat, X.map (fun z => (z.x, z.offered))) }, X)

/-- `Optimizer.ask(n_points, strategy)` -/
def ask (ops : Ops α τ) (s : Opt α) (n : Option Nat) (strat : Strategy) (env : AskEnv α τ) :
    Except Err (Opt α × List (Sel α)) :=
  match n with
  | none | some 1 =>
    match askOne s env.cands with
    | .error e => .error e
    | .ok (s', sel) => .ok (s', [sel])
  | some n =>
    if n > 0 ∧ s.randomPhase then .ok (askInitBatch s n env.cands)
    else if n = 0 then .error .badN
    else
      match (if strat.isOneShot then s.last else none) with
      | some l =>
        if strat = .topk then askTopk s n l ((env.orders l).headD [])
        else askBoltzmann s n l (env.orders l)
      | none =>
        match (if strat.isQ then s.nextX else none) with
        | some x0 => askQ s n x0 env.cands env.orders
        | none =>
          match s.cache with
          | some (n', st', X) =>
            if n' = n ∧ st' = strat then .ok (s, X.map (fun p => ⟨p.1, p.2⟩))
            else askCL ops s n strat env
          | none => askCL ops s n strat env

/-! ### CBO layer -/

/-- how `CBO._tell` classifies the objective of a job -/
inductive Res | val | fail | other
  deriving DecidableEq, Repr

structure Cbo (α : Type) where
  opt : Opt α
  strat : Strategy
  ignoreFailures : Bool          -- filter_failures == "ignore"
  asked : Bool := false          -- _asked_since_tell

def cboTold (ignore : Bool) (results : List (α × Res)) : List (α × Obj) :=
  results.filterMap (fun p =>
    match p.2 with
    | .val => some (p.1, Obj.val)
    | .fail => if ignore then none else some (p.1, Obj.fail)
    | .other => none)

/-- `CBO._ask(n)`: `update_next()` first when configurations were already asked since the last
tell, then `self._opt.ask(n_points=n, strategy=...)` -/
def cboAsk (ops : Ops α τ) (c : Cbo α) (n : Nat) (env : AskEnv α τ) : Except Err (Cbo α × List (Sel α)) :=
  let r := if c.asked then updateNext ops c.opt env.refresh else .ok c.opt
  match r with
  | .error e => .error e
  | .ok o0 =>
    match ask ops o0 (some n) c.strat env with
    | .error e => .error e
    | .ok (o, X) => .ok ({ c with opt := o, asked := true }, X)

/-- `CBO._tell(results)` -/
def cboTell (ops : Ops α τ) (c : Cbo α) (results : List (α × Res)) (e : Fit α τ) : Except Err (Cbo α) :=
  let told := cboTold c.ignoreFailures results
  let r := if told.isEmpty then updateNext ops c.opt e else tell ops c.opt told e
  match r with
  | .error err => .error err
  | .ok o => .ok { c with opt := o, asked := false }

/-- a freshly set-up CBO optimizer (`CBO._setup_optimizer`), `filter_duplicated=True`, random
initial design -/
def Cbo.start (nInit : Int) (dummy : Bool) (strat : Strategy) (ignoreFailures : Bool) : Cbo α :=
  { opt := Opt.init true dummy nInit [], strat, ignoreFailures }

/-- the same with initial points given by the user (`CBO(initial_points=[…])`): they are handed
out first, the random design completes the initial phase -/
def Cbo.startInit (nInit : Int) (dummy : Bool) (strat : Strategy) (ignoreFailures : Bool)
    (init : List α) : Cbo α :=
  { opt := Opt.init true dummy nInit init, strat, ignoreFailures }

/-- a call of the public ask/tell interface of the search -/
inductive Op (α τ : Type)
  | ask (n : Nat) (env : AskEnv α τ)
  | tell (results : List (α × Res)) (env : Fit α τ)

/-- any sequence of `Search.ask` / `Search.tell` calls (in any order); returns the final state
and everything that was proposed, in order -/
def runOps (ops : Ops α τ) : Cbo α → List (Op α τ) → Except Err (Cbo α × List (Sel α))
  | c, [] => .ok (c, [])
  | c, .ask n env :: rest =>
    match cboAsk ops c n env with
    | .error e => .error e
    | .ok (c1, X) =>
      match runOps ops c1 rest with
      | .error e => .error e
      | .ok (c2, Y) => .ok (c2, X ++ Y)
  | c, .tell results env :: rest =>
    match cboTell ops c results env with
    | .error e => .error e
    | .ok c1 => runOps ops c1 rest

/-- one iteration of `Search._search`: `ask(n)`, evaluate, `tell(results)` -/
structure Round (α τ : Type) where
  n : Nat
  askEnv : AskEnv α τ
  results : List (α × Res)
  tellEnv : Fit α τ

def Round.ops (r : Round α τ) : List (Op α τ) := [.ask r.n r.askEnv, .tell r.results r.tellEnv]

/-- the search loop `Search._search` (ask, evaluate, tell, repeat) -/
def run (ops : Ops α τ) (c : Cbo α) (rounds : List (Round α τ)) : Except Err (Cbo α × List (Sel α)) :=
  runOps ops c (rounds.flatMap Round.ops)

/-! ### executable freshness check -/

/-- the C08 checker the harness runs on the proposals of the implementation (proved equivalent
to the freshness statement in `Proofs/AskMembership.lean`): each proposal that repeats an earlier one was selected
from a candidate list whose members had all been proposed before -/
def selsOKb : List α → List (Sel α) → Bool
  | _, [] => true
  | H, z :: zs =>
    (!decide (z.x ∈ H) || z.offered.all (fun c => decide (c ∈ H))) && selsOKb (H ++ [z.x]) zs

/-! ### the two C08 paths as they are on the pinned tree (regression witnesses only) -/

/-- pinned `qLCB` branch: nothing recorded in `sampled`, plain argmin per kappa -/
def askQPre (s : Opt α) (n : Nat) (x0 : α) (cands : List α) (orders : List (List Nat)) :
    Except Err (Opt α × List (Sel α)) :=
  let f := filterDup s.filterOn s.sampled cands
  match rows f ((orders.take (n - 1)).filterMap List.head?) with
  | .error e => .error e
  | .ok X => .ok (s, ⟨x0, s.nextFrom⟩ :: X.map (fun x => ⟨x, cands⟩))

/-- the initial batch before the fix of wave 3: the random points that complete a batch of
initial points were filtered against `sampled` only, not against the initial points handed out
in the same batch -/
def askInitBatchPre (s : Opt α) (n : Nat) (cands : List α) : Opt α × List (Sel α) :=
  let k := min s.initSamples.length n
  let a := s.initSamples.take k
  let b := (filterDup s.filterOn s.sampled cands).take (n - k)
  ({ s with initSamples := s.initSamples.drop k, sampled := s.sampled ++ (a ++ b) },
   a.map (fun x => ⟨x, []⟩) ++ b.map (fun x => ⟨x, cands⟩))

/-- pinned `CBO._tell`: nothing happens when every result is an ignored failure -/
def cboTellPre (ops : Ops α τ) (c : Cbo α) (results : List (α × Res)) (e : Fit α τ) : Except Err (Cbo α) :=
  let told := cboTold c.ignoreFailures results
  if told.isEmpty then .ok c else
  match tell ops c.opt told e with
  | .error err => .error err
  | .ok o => .ok { c with opt := o }

end

end DH.Ask
