import Model.Dump
import Model.Csv

/-!
# The bytes of `results.csv` (C04)

`DictWriter.writeheader()` writes the column names, `writerows` one record per result dict: a
missing key gives `restval=""`, `None` is written as the empty string, a `str` as itself, anything
else as `str(value)` (`repr` for a float, decimal digits for an `int`).  The text of non-string
values is an environment function `fmt` (Python's float printing is not modelled).

Core Lean only (imports two other model files).
-/

namespace DH.Dump
open DH.Csv

/-- the characters of a column name -/
def colText (c : Col) : Text := c.name.toList

def cellText (fmt : Val → Text) : Option Val → Text
  | none => []
  | some (.str s) => s.toList
  | some .none => []
  | some v => fmt v

/-- the records of the file: header line, then one line per written row -/
def tableLines (fmt : Val → Text) (t : Table) : List (List Text) :=
  match t.header with
  | none => []
  | some h => h.map colText :: t.rows.map (fun r => r.map (cellText fmt))

/-- the content of `results.csv` -/
def fileText (fmt : Val → Text) (t : Table) : Text := renderFile (tableLines fmt t)

end DH.Dump
