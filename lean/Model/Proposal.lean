/-!
# Model of the stage between the sampler and the user in the initial phase (C10)

`deephyper/skopt/optimizer/optimizer.py`: `Optimizer._filter_duplicated`, `_ask_random_points`, and the
initial-phase branches of `Optimizer.ask` (`n_points is None or 1` → `_ask()` → `_ask_random_points()`;
`n_points ≥ 2` → `_ask_random_points(size=n_points)`); `CBO._ask` hands the same rows out as dicts.

What `Space.rvs(n_samples = n_points)` returned — the *candidates*, in the order they were drawn — is an
explicit argument; the model says WHICH of them are handed to the user and IN WHICH ORDER.  The second
half of the file is the probability side: all candidate sequences of a finite support weighted by the
product of the prior weights of their members (independent draws), and the mass of the sequences on
which a given configuration is the first one handed out.

Import-free (core Lean only).
-/

namespace DH.Proposal

section
variable {α : Type} [DecidableEq α]

/-! ### `_filter_duplicated` -/

/-- `df[~df.duplicated(keep="first")]`: every repeated row is dropped, the first occurrence stays where it is -/
def dedup : List α → List α
  | [] => []
  | x :: xs => x :: (dedup xs).filter (fun y => decide (y ≠ x))

/-- `Optimizer._filter_duplicated(samples)`: drop repeated rows (keep the first), anti-join with
`self.sampled` (inner merge with the history, concat, drop every row that now occurs twice), and return
the *unfiltered* input when nothing is left. -/
def filterDup (on : Bool) (sampled samples : List α) : List α :=
  if on then
    let d := (dedup samples).filter (fun s => decide (s ∉ sampled))
    if d.isEmpty then samples else d
  else samples

/-- the same list written as one pass in drawing order: a candidate is kept iff it is neither in the
history nor equal to a candidate kept before it (proved equal to the pandas-shaped pipeline) -/
def fresh : List α → List α → List α
  | _, [] => []
  | seen, c :: cs => if c ∈ seen then fresh seen cs else c :: fresh (c :: seen) cs

/-- the first candidate, in drawing order, that is not in the history -/
def firstFresh (sampled cands : List α) : Option α :=
  cands.find? (fun c => decide (c ∉ sampled))

/-! ### `_ask_random_points`, `ask` in the initial phase -/

inductive PErr
  | indexError   -- `Xsamples[0]` on an empty list of candidates
  | valueError   -- "n_points should be int > 0"
  deriving DecidableEq, Repr

/-- `_ask_random_points(size)`: `size = None` → `[Xsamples[0]]`, `size = n` → `Xsamples[:n]` -/
def askRandomPoints (on : Bool) (sampled cands : List α) : Option Nat → Except PErr (List α)
  | none =>
    match filterDup on sampled cands with
    | [] => .error .indexError
    | x :: _ => .ok [x]
  | some n => .ok ((filterDup on sampled cands).take n)

/-- one `Optimizer.ask` of the initial phase (random initial design): `n_points` `None`/`1` is the
single-point branch, `n ≥ 2` the batch branch; returns the rows handed out and the new history
(`self.sampled.append(x)` / `.extend(X)`) -/
def ask (on : Bool) (sampled cands : List α) (nPoints : Option Nat) : Except PErr (List α × List α) :=
  if nPoints = some 0 then .error .valueError
  else
    let size := match nPoints with
      | none => none
      | some n => if n ≤ 1 then none else some n
    match askRandomPoints on sampled cands size with
    | .error e => .error e
    | .ok xs => .ok (xs, sampled ++ xs)

/-- a history of asks on one optimizer: each with the candidates drawn for it; the rows handed out by
each ask (an error ends the history, as the exception does) -/
def askMany (on : Bool) : List α → List (List α × Option Nat) → List (Except PErr (List α))
  | _, [] => []
  | sampled, (cands, n) :: rest =>
    match ask on sampled cands n with
    | .error e => [.error e]
    | .ok (xs, s') => .ok xs :: askMany on s' rest

end

/-! ### independent draws from a prior over a finite support -/

/-- sum of a list of rationals -/
def rsum : List Rat → Rat
  | [] => 0
  | x :: xs => x + rsum xs

/-- `T ^ n` -/
def pw (T : Rat) : Nat → Rat
  | 0 => 1
  | n + 1 => T * pw T n

/-- `Σ_{i < n} q^i · T^(n-1-i)`: with a normalized prior (`T = 1`) this is `(1 - q^n) / (1 - q)` -/
def geom (q T : Rat) : Nat → Rat
  | 0 => 0
  | n + 1 => q * geom q T n + pw T n

section
variable {α : Type} [DecidableEq α]

/-- all sequences of `n` candidates over the support -/
def seqs (support : List α) : Nat → List (List α)
  | 0 => [[]]
  | n + 1 => support.flatMap (fun c => (seqs support n).map (fun cs => c :: cs))

/-- weight of a sequence of independent draws: the product of the prior weights -/
def weight (p : α → Rat) : List α → Rat
  | [] => 1
  | c :: cs => p c * weight p cs

/-- total prior weight of a list of configurations -/
def total (p : α → Rat) (l : List α) : Rat := rsum (l.map p)

/-- prior weight of the part of the support that is already in the history -/
def totalIn (p : α → Rat) (support sampled : List α) : Rat :=
  rsum ((support.filter (fun c => decide (c ∈ sampled))).map p)

/-- mass of the candidate sequences of length `n` on which `v` is the first configuration handed out
given the history `sampled` -/
def massFirst (p : α → Rat) (support sampled : List α) (n : Nat) (v : α) : Rat :=
  rsum ((seqs support n).map (fun cs => if firstFresh sampled cs = some v then weight p cs else 0))

/-- mass of ALL candidate sequences of length `n` -/
def massAll (p : α → Rat) (support : List α) (n : Nat) : Rat :=
  rsum ((seqs support n).map (weight p))

end

end DH.Proposal
