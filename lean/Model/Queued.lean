/-!
# Model of `deephyper/evaluator/_queued.py` — `queued(evaluator_class)`

The code after the fixes `fix: queued evaluators bind the dequed resources to their own job` and
`fix: queued evaluators wait for free resources instead of popping an empty queue`:

```
async def execute(self, job):
    while len(self.queue) < self.queue_pop_per_task:        # wait for returned resources
        ... await waiter ...
    dequed = [self.queue.popleft() for _ in range(self.queue_pop_per_task)]   -- `take`
    _DEQUED.set(dequed)                                     # context variable of THIS task
    try:
        job = await evaluator_class.execute(self, job)      -- `start` .. `endRun`
        job.metadata["dequed"] = ",".join(...dequed)
    finally:
        self.queue.extend(dequed); wake the waiters         -- `release`
```

and inside the wrapped `execute()`: `async with self.sem:` — the worker semaphore; `set_event_loop`
creates a **new** one at every `submit` call, and a task uses whichever `self.sem` is current when it
reaches that line, which (no `await` in between) is the moment of its `take`; `sem` below is that
generation —, then the run-function is launched with
`**self.run_function_kwargs`, a property that resolves `"dequed"` from the context variable of the
current task.

`Evaluator.close()` cancels every task that is not done: the `CancelledError` reaches the task
wherever it is suspended — on a waiter future (nothing popped yet), on the worker semaphore, inside
the run-function — and the `finally` block returns whatever the job holds (`cancel`; a done task is
not affected by `Task.cancel()`).  The evaluator can be used again afterwards (further `submit`s).
A `timeout` that expires does not cancel the task: the job waits for its run-function and ends through
the ordinary `endRun` / `release` path.

A job goes through the phases `created → holding → running → returning → finished`, or from any of
the first four to `cancelled`; the
transitions of different jobs interleave in any order the guards allow (asyncio's scheduling and the
completion order of the evaluations are the environment).  The waiter futures are abstracted into
the guard of `take` (a job takes its resources only when enough are free); the worker semaphore into
the guard of `start`.  Core Lean only (no imports).
-/

namespace DH.Queued

inductive Phase (R : Type)
  /-- task created, nothing popped yet (possibly blocked on a waiter future) -/
  | created
  /-- popped `ds`; waiting for a worker slot -/
  | holding (ds : List R)
  /-- inside the run-function, which received `recv` as its `dequed` keyword argument
  (`none` = the keyword was absent) -/
  | running (ds : List R) (recv : Option (List R))
  /-- the run-function returned, the resources are not yet back in the queue -/
  | returning (ds : List R) (recv : Option (List R))
  /-- resources returned; `md` = what `job.metadata["dequed"]` names -/
  | finished (recv : Option (List R)) (md : List R)
  /-- the task was cancelled (by `close()`); whatever it held is back in the queue -/
  | cancelled
  deriving DecidableEq, Repr

structure QJob (R : Type) where
  /-- generation of the worker semaphore the job's task is bound to (set at `take`) -/
  sem : Nat
  /-- the value of the context variable `_DEQUED` in this job's task -/
  ctx : Option (List R)
  phase : Phase R
  deriving DecidableEq, Repr

structure QState (R : Type) where
  queue : List R
  pop : Nat
  workers : Nat
  jobs : List (QJob R)
  waves : Nat
  deriving DecidableEq, Repr

inductive QStep
  | submit (n : Nat)
  | take (j : Nat)
  | start (j : Nat)
  | endRun (j : Nat)
  | release (j : Nat)
  /-- `Task.cancel()` reaching job `j`'s task while it is not done -/
  | cancel (j : Nat)
  deriving DecidableEq, Repr

variable {R : Type}

def init (queue : List R) (pop workers : Nat) : QState R :=
  { queue := queue, pop := pop, workers := workers, jobs := [], waves := 0 }

def isRunning : Phase R → Bool
  | .running _ _ => true
  | _ => false

/-- resources a job currently holds -/
def held : Phase R → List R
  | .created => []
  | .holding ds => ds
  | .running ds _ => ds
  | .returning ds _ => ds
  | .finished _ _ => []
  | .cancelled => []

/-- the job's task is done (finished normally or cancelled) -/
def isEnded : Phase R → Bool
  | .finished _ _ => true
  | .cancelled => true
  | _ => false

/-- holders of the worker semaphore of generation `g` that are inside the run-function -/
def runningOn (s : QState R) (g : Nat) : Nat :=
  (s.jobs.filter (fun j => j.sem == g && isRunning j.phase)).length

def setJob (s : QState R) (j : Nat) (x : QJob R) : QState R :=
  { s with jobs := s.jobs.set j x }

/-- one transition; `none` = the step is not enabled in `s` -/
def step (s : QState R) : QStep → Option (QState R)
  | .submit n =>
    some { s with jobs := s.jobs ++ List.replicate n { sem := 0, ctx := none, phase := .created },
                  waves := s.waves + 1 }
  | .take j =>
    match s.jobs[j]? with
    | some x =>
      match x.phase with
      | .created =>
        if s.pop ≤ s.queue.length then
          let ds := s.queue.take s.pop
          some (setJob { s with queue := s.queue.drop s.pop } j { x with sem := s.waves, ctx := some ds, phase := .holding ds })
        else none
      | _ => none
    | none => none
  | .start j =>
    match s.jobs[j]? with
    | some x =>
      match x.phase with
      | .holding ds =>
        if runningOn s x.sem < s.workers then
          some (setJob s j { x with phase := .running ds x.ctx })
        else none
      | _ => none
    | none => none
  | .endRun j =>
    match s.jobs[j]? with
    | some x =>
      match x.phase with
      | .running ds recv => some (setJob s j { x with phase := .returning ds recv })
      | _ => none
    | none => none
  | .release j =>
    match s.jobs[j]? with
    | some x =>
      match x.phase with
      | .returning ds recv =>
        some (setJob { s with queue := s.queue ++ ds } j { x with phase := .finished recv ds })
      | _ => none
    | none => none
  | .cancel j =>
    match s.jobs[j]? with
    | some x =>
      if isEnded x.phase then none
      else some (setJob { s with queue := s.queue ++ held x.phase } j { x with phase := .cancelled })
    | none => none

/-- `for t in self._tasks_running: t.cancel()` + waiting for them, for the tasks `order` (the
order in which the cancelled tasks get to run is the event loop's): a task that is already done is
not affected -/
def cancelAll (s : QState R) : List Nat → QState R
  | [] => s
  | j :: js => match step s (.cancel j) with
    | some s' => cancelAll s' js
    | none => cancelAll s js

/-- run a list of steps; `none` as soon as one of them is not enabled -/
def steps (s : QState R) : List QStep → Option (QState R)
  | [] => some s
  | t :: ts => match step s t with
    | some s' => steps s' ts
    | none => none

/-- states reachable from a queue `q0` of resources -/
inductive Reach (q0 : List R) (pop workers : Nat) : QState R → Prop
  | init : Reach q0 pop workers (init q0 pop workers)
  | step {s s' : QState R} (t : QStep) : Reach q0 pop workers s → step s t = some s' →
      Reach q0 pop workers s'

def heldAll (s : QState R) : List R := s.jobs.flatMap (fun j => held j.phase)

/-- progress measure: how many transitions each job still has to make -/
def rank : Phase R → Nat
  | .created => 4
  | .holding _ => 3
  | .running _ _ => 2
  | .returning _ _ => 1
  | .finished _ _ => 0
  | .cancelled => 0

def measure (s : QState R) : Nat := (s.jobs.map (fun j => rank j.phase)).sum

/-! ### the pinned tree (regression witnesses only)

`dequed` is popped without waiting (an empty deque raises `IndexError`) and written into the
**shared** slot `run_function_kwargs["dequed"]`; the run-function receives whatever the slot holds
when its job gets a worker slot. -/

structure PreState (R : Type) where
  st : QState R
  slot : Option (List R)
  deriving DecidableEq, Repr

inductive PreOut (R : Type)
  | ok (s : PreState R)
  | indexError
  | disabled
  deriving DecidableEq, Repr

def stepPre (s : PreState R) : QStep → PreOut R
  | .take j =>
    match s.st.jobs[j]? with
    | some x =>
      match x.phase with
      | .created =>
        if s.st.pop ≤ s.st.queue.length then
          let ds := s.st.queue.take s.st.pop
          .ok { st := setJob { s.st with queue := s.st.queue.drop s.st.pop } j { x with sem := s.st.waves, phase := .holding ds },
                slot := some ds }
        else .indexError
      | _ => .disabled
    | none => .disabled
  | .start j =>
    match s.st.jobs[j]? with
    | some x =>
      match x.phase with
      | .holding ds =>
        if runningOn s.st x.sem < s.st.workers then
          .ok { s with st := setJob s.st j { x with phase := .running ds s.slot } }
        else .disabled
      | _ => .disabled
    | none => .disabled
  | t => match step s.st t with
    | some s' => .ok { s with st := s' }
    | none => .disabled

def stepsPre (s : PreState R) : List QStep → PreOut R
  | [] => .ok s
  | t :: ts => match stepPre s t with
    | .ok s' => stepsPre s' ts
    | o => o

end DH.Queued
