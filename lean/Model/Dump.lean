/-!
# Model of the results-table writer (C04, shared with C06)

Code modelled (deephyper 0.9.3 + the `fix:` commits merged into `/repo` main, i.e. the three
commits of branch `fix-g3` and the C15 commits that restructured the dump path):

* `HPOJob.standardize_output` / `HPOJob.set_output`   (`evaluator/_job.py`)
* `Evaluator._on_done` (status, `timestamp_gather`, non-finite objective -> `"F"`,
  scalar **and** tuple/list — the tuple test is fix 2)   (`evaluator/_evaluator.py`)
* `Evaluator._dump_jobs_done_to_csv_as_hpo_format` + `Evaluator._write_rows_to_csv` (the CSV
  writer state machine: `_start_dumping`, `_columns_dumped`, `num_objective`, `jobs_done`; arity
  inferred from the first non-failed job — fix 1).  Nothing is opened while there is nothing to
  write; the first write puts header + rows into `results.csv.tmp` and `os.replace`s it onto
  `results.csv` (a `results.csv` that appeared meanwhile is renamed first), later writes append.
  The model's `Table` is the content of `results.csv`: header written exactly once, then rows —
  the temporary file and the atomic replace are crash-safety (C15) and leave no trace here.
* `Search.search` ends with `dump_jobs_done_to_csv(flush=True)` (now *before* the "no results
  file" test, so an all-failed search returns its table) and the Pareto step.
* `Search.__init__` (`searchInit`, end of this file): rename of an existing `results.csv` and
  reset of the given evaluator's dump state.
* `Search.extend_results_with_pareto_efficient_indicator` is modelled in
  `Model/DumpPareto.lean` (it needs `Model/Pareto.lean`); it rewrites the file through
  `results.csv.tmp` + `os.replace` as well.

Values are a small JSON-like tree `Val`.  Python `int`/`float` are both `num` (cells are
compared by value); `nan`/`inf`/`-inf` are `nonfin`; tuples and lists are `list`.

Column names are a structured type `Col` (`p:<k>`, `objective`, `objective_<i>`, `job_id`,
`job_status`, `m:<k>`): the prefixes exist to keep the name spaces apart, `Col.name` renders
them (its injectivity is plain string reasoning and is not part of the theorems).

Not modelled: a scalar that is neither `str` nor `Number` (e.g. `bytes`: `TypeError`), `bool`
objectives, `"metadata"` given as a list of pairs (accepted by `dict.update`), an empty
metadata key (`k[0]` raises), the text rendering of cells (`csv` module, `repr(float)`).

Core Lean only (no imports).
-/

namespace DH.Dump

inductive NonFin | nan | posInf | negInf
  deriving DecidableEq, Repr

/-- JSON-like value tree -/
inductive Val where
  | num (q : Rat)
  | nonfin (k : NonFin)
  | str (s : String)
  | none
  | list (l : List Val)
  | dict (kv : List (String × Val))
  deriving Repr, Inhabited

mutual
def Val.decEq : (a b : Val) → Decidable (a = b)
  | .num p, .num q => if h : p = q then isTrue (h ▸ rfl) else isFalse (fun h' => h (Val.num.inj h'))
  | .nonfin p, .nonfin q =>
    if h : p = q then isTrue (h ▸ rfl) else isFalse (fun h' => h (Val.nonfin.inj h'))
  | .str p, .str q => if h : p = q then isTrue (h ▸ rfl) else isFalse (fun h' => h (Val.str.inj h'))
  | .none, .none => isTrue rfl
  | .list p, .list q => match Val.decEqList p q with
    | isTrue h => isTrue (h ▸ rfl)
    | isFalse h => isFalse (fun h' => h (Val.list.inj h'))
  | .dict p, .dict q => match Val.decEqKV p q with
    | isTrue h => isTrue (h ▸ rfl)
    | isFalse h => isFalse (fun h' => h (Val.dict.inj h'))
  | .num _, .nonfin _ | .num _, .str _ | .num _, .none | .num _, .list _ | .num _, .dict _
  | .nonfin _, .num _ | .nonfin _, .str _ | .nonfin _, .none | .nonfin _, .list _
  | .nonfin _, .dict _
  | .str _, .num _ | .str _, .nonfin _ | .str _, .none | .str _, .list _ | .str _, .dict _
  | .none, .num _ | .none, .nonfin _ | .none, .str _ | .none, .list _ | .none, .dict _
  | .list _, .num _ | .list _, .nonfin _ | .list _, .str _ | .list _, .none | .list _, .dict _
  | .dict _, .num _ | .dict _, .nonfin _ | .dict _, .str _ | .dict _, .none | .dict _, .list _ =>
    isFalse (by intro h; cases h)
def Val.decEqList : (a b : List Val) → Decidable (a = b)
  | [], [] => isTrue rfl
  | [], _ :: _ => isFalse (by intro h; cases h)
  | _ :: _, [] => isFalse (by intro h; cases h)
  | a :: as, b :: bs => match Val.decEq a b, Val.decEqList as bs with
    | isTrue h1, isTrue h2 => isTrue (h1 ▸ h2 ▸ rfl)
    | isFalse h1, _ => isFalse (fun h => h1 (List.cons.inj h).1)
    | _, isFalse h2 => isFalse (fun h => h2 (List.cons.inj h).2)
def Val.decEqKV : (a b : List (String × Val)) → Decidable (a = b)
  | [], [] => isTrue rfl
  | [], _ :: _ => isFalse (by intro h; cases h)
  | _ :: _, [] => isFalse (by intro h; cases h)
  | (k, a) :: as, (k', b) :: bs =>
    if hk : k = k' then
      match Val.decEq a b, Val.decEqKV as bs with
      | isTrue h1, isTrue h2 => isTrue (hk ▸ h1 ▸ h2 ▸ rfl)
      | isFalse h1, _ => isFalse (fun h => h1 (Prod.mk.inj (List.cons.inj h).1).2)
      | _, isFalse h2 => isFalse (fun h => h2 (List.cons.inj h).2)
    else isFalse (fun h => hk (Prod.mk.inj (List.cons.inj h).1).1)
end

instance : DecidableEq Val := Val.decEq

/-- `[f(x) for x in l]` when every `f x` is defined -/
def optMap {α β : Type} (f : α → Option β) : List α → Option (List β)
  | [] => some []
  | a :: l =>
    match f a with
    | none => none
    | some b =>
      match optMap f l with
      | none => none
      | some bs => some (b :: bs)

/-! ### Python `dict` (insertion ordered) -/

abbrev Dict := List (String × Val)

/-- `d.get(k)` -/
def dget : Dict → String → Option Val
  | [], _ => none
  | (k', v) :: r, k => if k' = k then some v else dget r k

/-- `d[k] = v` (an existing key keeps its position) -/
def dset : Dict → String → Val → Dict
  | [], k, v => [(k, v)]
  | (k', v') :: r, k, v => if k' = k then (k', v) :: r else (k', v') :: dset r k v

/-- `d.update(u)` -/
def dupdate (d u : Dict) : Dict := u.foldl (fun acc kv => dset acc kv.1 kv.2) d

/-! ### `HPOJob.standardize_output` -/

inductive StdErr
  | badType       -- `TypeError`: output (or inner output) is None / unsupported
  | noObjective   -- `ValueError`: dict without the key "objective"
  | badMetadata   -- `metadata.update(x)` raises for a non-dict `x`
  deriving DecidableEq, Repr

/-- what `metadata.update(d.pop("metadata", dict()))` adds.  A non-dict value makes
`dict.update` raise, except the two empty iterables `[]`/`()` and `""`. -/
def metaOf (d : Dict) : Except StdErr Dict :=
  match dget d "metadata" with
  | none => .ok []
  | some (.dict m) => .ok m
  | some (.list []) => .ok []
  | some (.str s) => if s = "" then .ok [] else .error .badMetadata
  | some _ => .error .badMetadata

/-- the part after the `"output"` unwrapping: `np.isscalar` / tuple-list / dict / else -/
def stdInner (out : Val) (md : Dict) : Except StdErr (Val × Dict) :=
  match out with
  | .str s => .ok (.str s, md)              -- {"objective": output}
  | .num q => .ok (.num q, md)              -- {"objective": float(output)}
  | .nonfin k => .ok (.nonfin k, md)
  | .list l => .ok (.list l, md)            -- {"objective": output}
  | .dict d =>
    match metaOf d with
    | .error e => .error e
    | .ok m2 =>
      match dget d "objective" with
      | none => .error .noObjective
      | some o => .ok (o, dupdate md m2)
  | .none => .error .badType

/-- `HPOJob.standardize_output(output)` : `(output["objective"], metadata)` or the exception -/
def standardizeOutput (out : Val) : Except StdErr (Val × Dict) :=
  match out with
  | .dict d =>
    match dget d "output" with
    | some inner =>
      match metaOf d with
      | .error e => .error e
      | .ok m => stdInner inner (dupdate [] m)
    | none => stdInner out []
  | _ => stdInner out []

/-! ### jobs -/

inductive Status | ready | running | done | cancelling | cancelled
  deriving DecidableEq, Repr

def Status.name : Status → String
  | .ready => "READY" | .running => "RUNNING" | .done => "DONE"
  | .cancelling => "CANCELLING" | .cancelled => "CANCELLED"

/-- an `HPOJob` as the dump sees it -/
structure JobRec where
  id : Nat                 -- `int(job.id.split(".")[1])`
  args : Dict              -- `job.args`
  objective : Val          -- `job.objective`
  status : Status
  md : Dict                -- `job.metadata`
  deriving Repr, DecidableEq

/-- `job.set_output(out)` on a job whose metadata so far is `meta0` -/
def setOutput (id : Nat) (args : Dict) (status : Status) (meta0 : Dict) (out : Val) :
    Except StdErr JobRec :=
  match standardizeOutput out with
  | .error e => .error e
  | .ok (o, md) => .ok { id := id, args := args, objective := o, status := status,
                         md := dupdate meta0 md }

def isNonFinite : Val → Bool
  | .nonfin _ => true
  | _ => false

/-- `_on_done`: a non-finite number, alone or inside a tuple/list, becomes the marker `"F"` -/
def onDoneObjective (o : Val) : Val :=
  match o with
  | .nonfin _ => .str "F"
  | .list l => if l.any isNonFinite then .str "F" else .list l
  | o => o

/-- `Evaluator._on_done(job)`; `tGather` is `time.time() - self.timestamp` (environment) -/
def onDone (tGather : Val) (j : JobRec) : JobRec :=
  { j with
    status := if j.status = .running then .done else j.status
    md := dset j.md "timestamp_gather" tGather
    objective := onDoneObjective j.objective }

/-! ### `_dump_jobs_done_to_csv_as_hpo_format` -/

inductive Col
  | param (k : String)
  | objective
  | objectiveI (i : Nat)
  | jobId
  | jobStatus
  | mdata (k : String)
  deriving DecidableEq, Repr

def Col.name : Col → String
  | .param k => "p:" ++ k
  | .objective => "objective"
  | .objectiveI i => "objective_" ++ toString i
  | .jobId => "job_id"
  | .jobStatus => "job_status"
  | .mdata k => "m:" ++ k

/-- the per-job `result` dict -/
abbrev RowDict := List (Col × Val)

/-- `rowdict.get(key)` -/
def rget : RowDict → Col → Option Val
  | [], _ => none
  | (c', v) :: r, c => if c' = c then some v else rget r c

def isStr : Val → Bool
  | .str _ => true
  | _ => false

def arityOfObj : Val → Nat
  | .list l => l.length
  | _ => 1

/-- the first job that did not fail (`type(job.objective) is not str`) -/
def firstSuccess (jobs : List JobRec) : Option JobRec :=
  jobs.find? (fun j => !isStr j.objective)

/-- fix 1: `num_objective` is taken from the first non-failed job of `jobs_done`
(tuple/list: its length; any other non-string: 1); failures leave it undecided. -/
def inferNumObjective (cur : Option Nat) (jobs : List JobRec) : Option Nat :=
  match cur with
  | some n => some n
  | none => (firstSuccess jobs).map (fun j => arityOfObj j.objective)

/-- the code before fix 1: whatever job is dumped first decides (a failure => 1) -/
def inferNumObjectiveOld (cur : Option Nat) (jobs : List JobRec) : Option Nat :=
  match cur with
  | some n => some n
  | none => jobs.head?.map (fun j => arityOfObj j.objective)

/-- `objective` / `objective_i` entries of `result` -/
def objectiveCells (numObj : Option Nat) (o : Val) : RowDict :=
  match o with
  | .list l => (List.range l.length).zip l |>.map (fun iv => (Col.objectiveI iv.1, iv.2))
  | o =>
    match numObj with
    | some n =>
      if n > 1 then (List.range n).map (fun i => (Col.objectiveI i, o)) else [(Col.objective, o)]
    | none => [(Col.objective, o)]

/-- metadata keys starting with `_` are internal -/
def visibleMeta (m : Dict) : Dict := m.filter (fun kv => kv.1.toList.head? != some '_')

/-- the `result` dict of one job (insertion order = column order) -/
def resultOf (numObj : Option Nat) (j : JobRec) : RowDict :=
  j.args.map (fun kv => (Col.param kv.1, kv.2))
    ++ objectiveCells numObj j.objective
    ++ [(Col.jobId, Val.num j.id), (Col.jobStatus, Val.str j.status.name)]
    ++ (visibleMeta j.md).map (fun kv => (Col.mdata kv.1, kv.2))

def notStrAt (r : RowDict) (c : Col) : Bool :=
  match rget r c with
  | some v => !isStr v
  | none => false

/-- `is_single_obj_and_has_success or is_multi_obj_and_has_success` -/
def isSuccessRow (r : RowDict) : Bool := notStrAt r .objective || notStrAt r (.objectiveI 0)

structure DumpState where
  started : Bool               -- `_start_dumping`
  columns : Option (List Col)  -- `_columns_dumped`
  numObjective : Option Nat    -- `num_objective`
  pending : List JobRec        -- `jobs_done`
  deriving Repr

/-- what one call appends to the file -/
structure DumpOut where
  header : Option (List Col)        -- header line, when this call wrote it
  rows : List (List (Option Val))   -- data lines (cells in header order; `none` = key absent)
  deriving Repr

/-- `DictWriter(fp, columns, extrasaction="ignore").writerows(results)` -/
def writeRows (cols : List Col) (results : List RowDict) : List (List (Option Val)) :=
  results.map (fun r => cols.map (rget r))

/-- header choice when nothing was written yet: keys of the first success, or of the first
result when `flush`; otherwise `_columns_dumped` stays what it was -/
def chooseColumns (flush : Bool) (old : Option (List Col)) (results : List RowDict) :
    Option (List Col) :=
  match results.find? (fun r => isSuccessRow r || flush) with
  | some r => some (r.map (·.1))
  | none => old

/-- one call of `_dump_jobs_done_to_csv_as_hpo_format(flush)`, generic in the arity inference -/
def dumpStepWith (infer : Option Nat → List JobRec → Option Nat) (flush : Bool) (st : DumpState) :
    DumpState × DumpOut :=
  let numObj := infer st.numObjective st.pending
  let results := st.pending.map (resultOf numObj)
  if st.pending.isEmpty then
    -- `len(resultsList) == 0`: nothing is written, no file is touched
    ({ st with numObjective := numObj }, ⟨none, []⟩)
  else
    let columns := if st.started then st.columns else chooseColumns flush st.columns results
    match columns with
    | none =>
      -- only failures so far and no flush: keep the jobs for the next call
      ({ st with numObjective := numObj }, ⟨none, []⟩)
    | some cols =>
      ({ started := true, columns := some cols, numObjective := numObj, pending := [] },
       ⟨if st.started then none else some cols, writeRows cols results⟩)

/-- the code after fix 1 -/
def dumpStep (flush : Bool) (st : DumpState) : DumpState × DumpOut :=
  dumpStepWith inferNumObjective flush st

/-- the code before fix 1 (kept for the regression witness) -/
def dumpStepOld (flush : Bool) (st : DumpState) : DumpState × DumpOut :=
  dumpStepWith inferNumObjectiveOld flush st

/-- which branch a call takes (for the harness histograms) -/
def dumpBranch (flush : Bool) (st : DumpState) : String :=
  if st.pending.isEmpty then "empty"
  else if st.started then "append"
  else if (dumpStep flush st).1.started then (if flush then "start-flush" else "start-success")
  else "hold"

/-! ### the file, and a whole run -/

structure Table where
  header : Option (List Col)
  rows : List (List (Option Val))
  deriving Repr

def Table.empty : Table := ⟨none, []⟩

/-- `_write_rows_to_csv`: a call that writes the header creates the file (through
`results.csv.tmp` + `os.replace`); a `results.csv` already there — written by another `Search` /
evaluator since this evaluator was created — is renamed first, so the file then holds this call's
lines only.  Later calls append. -/
def Table.add (t : Table) (o : DumpOut) : Table :=
  match o.header with
  | some h => ⟨some h, o.rows⟩
  | none => ⟨t.header, t.rows ++ o.rows⟩

def DumpState.fresh : DumpState := ⟨false, none, none, []⟩

/-- a run: each op appends a batch of finished jobs to `jobs_done`
(`process_local_tasks_done`) and then calls the dump with the given `flush` -/
def runOpsWith (step : Bool → DumpState → DumpState × DumpOut) (st : DumpState) (t : Table) :
    List (List JobRec × Bool) → DumpState × Table
  | [] => (st, t)
  | (b, fl) :: rest =>
    let r := step fl { st with pending := st.pending ++ b }
    runOpsWith step r.1 (t.add r.2) rest

def runOps := runOpsWith dumpStep

def allJobs (ops : List (List JobRec × Bool)) : List JobRec := ops.flatMap (·.1)

/-! ### several `Search` objects on one `log_dir`

`Search.__init__`: when `results.csv` exists it is renamed (`Evaluator.rename_existing_file`, the
earlier table lives on in the backup file — C15); `_columns_dumped = None`,
`_start_dumping = False` are set on the search's evaluator unconditionally, so that an `Evaluator`
instance that already dumped for an earlier `Search` (in this or another directory) writes a
header into the new file.  `num_objective`,
`jobs_done` and the job-id counter of a re-used evaluator are kept.  The file exists iff its
header was written (`_write_rows_to_csv` creates it with the header, through a temporary file). -/

/-- which evaluator a new `Search` object is given -/
inductive EvalChoice
  | fresh   -- a new `Evaluator` (or a plain callable: `Search` creates the evaluator itself)
  | reuse   -- the `Evaluator` instance of the previous `Search`
  deriving DecidableEq, Repr

/-- `Search(problem, evaluator, log_dir=…)` : evaluator state and `results.csv` afterwards.
An existing `results.csv` is renamed; the dump state of the evaluator is reset **in every case**
(`72663f8`: also when the directory has no `results.csv`, e.g. an evaluator that dumped for a
search in another directory). -/
def searchInit (c : EvalChoice) (st : DumpState) (t : Table) : DumpState × Table :=
  let ev := match c with
    | .fresh => DumpState.fresh
    | .reuse => st
  ({ ev with started := false, columns := none },
   match t.header with
   | some _ => Table.empty
   | none => t)

/-- a `Search` object that was constructed earlier, while `results.csv` did not exist yet (nothing
to rename, nothing to reset), starts dumping now with its own fresh evaluator: the table written
meanwhile by another `Search` is renamed by the first write (`Table.add`) -/
def searchInitEarly (_st : DumpState) (t : Table) : DumpState × Table := (DumpState.fresh, t)

/-- the seeded change C04-3: the rename without the reset of the evaluator's dump state -/
def searchInitNoReset (c : EvalChoice) (st : DumpState) (t : Table) : DumpState × Table :=
  let ev := match c with
    | .fresh => DumpState.fresh
    | .reuse => st
  match t.header with
  | some _ => (ev, Table.empty)
  | none => (ev, t)

/-- a history over `Search` objects: each with its evaluator choice and its dump operations;
the result is the table each `Search` object leaves in `results.csv` -/
def runHistoryWith (init : EvalChoice → DumpState → Table → DumpState × Table)
    (st : DumpState) (t : Table) :
    List (EvalChoice × List (List JobRec × Bool)) → List Table
  | [] => []
  | (c, ops) :: rest =>
    let s0 := init c st t
    let r := runOps s0.1 s0.2 ops
    r.2 :: runHistoryWith init r.1 r.2 rest

def runHistory := runHistoryWith searchInit

end DH.Dump
