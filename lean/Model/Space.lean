/-!
# Model of `deephyper/skopt/space/{space,transformers}.py` (C09; shared with C02, C10)

What is modelled, branch by branch (the code as it is on `/repo` main, i.e. **after** the `fix:`
commits c712e68, 01bcae6, 5b1cf8d, see `notes/C09.md`, `notes/C10.md`):

* `transformers.py`: `Identity`, `Identity(type_func=int)`, `LogN`, `Normalize(low, high, is_int)`,
  `LabelEncoder`, `CategoricalEncoder` (a `LabelBinarizer` over the category indices, including
  the one-class all-zero column and the two-class single column) and `Pipeline`
  (`Stage`, `Tr`, `Stage.transform`, `Stage.inverse`, `Tr.transform`, `Tr.inverse`);
* `space.py`: which pipeline `set_transformer` installs for every (kind, prior, transform)
  (`Dim.transformer`), `Real/Integer/Categorical.inverse_transform` (clip / clip+round / lookup:
  `Dim.inverseTransform`), `transformed_size`, `transformed_bounds`, `__contains__` (`memDim`,
  kind **and** bounds), `Space.transform` (pack by dimension, transform, `hstack`) and
  `Space.inverse_transform` (unpack by `transformed_size`, inverse, `_transpose_list_array`).

Numbers are exact rationals.  `log` and `pow` are **parameters**: `L x` stands for
`np.log10(x) / np.log10(base)` and `E t` for `base ** t`; nothing is assumed about them in this
file (the theorems state what they need: nothing at all for membership, monotonicity for the
bounds, `E (L x) = x` for the exact round trip).

Python values are `Val` (`num` = `float`, `int` = `int`/NumPy integer, `str`, `bool`).
Errors are outputs (`Except Err`).  A one-dimensional array / list is `Col.vals`, a
two-dimensional array `Col.mat`.

Column `j` of `X` is taken by peeling heads (`X[i][j]` for all `i` = heads after `j` tails) and
the slice `Xt[:, start:start+size]` by `take`/`drop` of every row: the same values as the
index arithmetic of the code, in a form that supports induction over the dimensions.

Not modelled (outside the property): `StringEncoder`, `ToInteger`, the `"normal"` prior, `dtype`
options other than the defaults, scalars instead of lists, string categories under the identity
transform inside `Space.transform` (NumPy would build a string matrix: `Err.unsupported`).

Core Lean only (no imports).
-/

namespace DH.Space

/-- a Python scalar as the space code sees it -/
inductive Val
  | num (q : Rat)      -- float
  | int (i : Int)      -- int, numpy integer
  | str (s : String)
  | bool (b : Bool)
  deriving DecidableEq, Repr, Inhabited

inductive Err
  | valueError | keyError | typeError | indexError | assertionError | unsupported
  deriving DecidableEq, Repr, Inhabited

/-- `[f(x) for x in l]` where `f` may raise -/
def mapE {α β : Type} (f : α → Except Err β) : List α → Except Err (List β)
  | [] => .ok []
  | a :: as =>
    match f a with
    | .error e => .error e
    | .ok b =>
      match mapE f as with
      | .error e => .error e
      | .ok bs => .ok (b :: bs)

/-- what `np.asarray(..., dtype=float)` makes of a scalar -/
def Val.toRat? : Val → Option Rat
  | .num q => some q
  | .int i => some (i : Rat)
  | .bool b => some (if b then 1 else 0)
  | .str _ => none

def Val.isInt : Val → Bool
  | .int _ => true
  | _ => false

def Val.isNum : Val → Bool
  | .num _ => true
  | _ => false

/-- one entry as a number, raising `e` when it is not numeric -/
def numCell (e : Err) (v : Val) : Except Err Rat :=
  match v.toRat? with
  | some q => .ok q
  | none => .error e

/-- a column as numbers, raising `e` on a non-numeric entry -/
def nums (e : Err) (l : List Val) : Except Err (List Rat) := mapE (numCell e) l

/-- `np.round` (round half to even) -/
def roundHalfEven (q : Rat) : Int :=
  let f := q.floor
  let r := q - (f : Rat)
  if r < 1/2 then f else if 1/2 < r then f + 1 else if f % 2 = 0 then f else f + 1

/-- `int(x)` on a float: truncation toward zero -/
def truncZero (q : Rat) : Int :=
  if 0 ≤ q then q.floor else -((-q).floor)

/-- `np.clip(x, lo, hi)` = `minimum(maximum(x, lo), hi)` -/
def clip (lo hi x : Rat) : Rat :=
  let y := if x < lo then lo else x
  if hi < y then hi else y

/-- `Normalize._eps` -/
def eps : Rat := 1 / 100000000

/-! ### order used by `np.unique` on a type-homogeneous category list -/

def Val.rank : Val → Nat
  | .bool _ => 0
  | .int _ => 1
  | .num _ => 2
  | .str _ => 3

/-- `a < b` inside one kind (numbers by value, strings by code points, `False < True`);
different kinds (never produced by the generators, NumPy would coerce) by `rank`. -/
def Val.lt : Val → Val → Bool
  | .num a, .num b => decide (a < b)
  | .int a, .int b => decide (a < b)
  | .str a, .str b => decide (a < b)
  | .bool a, .bool b => !a && b
  | a, b => decide (a.rank < b.rank)

/-- insert into a sorted duplicate-free list -/
def insertU (v : Val) : List Val → List Val
  | [] => [v]
  | w :: ws => if v = w then w :: ws else if v.lt w then v :: w :: ws else w :: insertU v ws

/-- `np.unique(cats)`: sorted, duplicates removed -/
def sortU : List Val → List Val
  | [] => []
  | v :: vs => insertU v (sortU vs)

/-! ### transformers -/

/-- the 1-D transformers of `transformers.py` that the search stack installs -/
inductive Stage
  | identity                                   -- `Identity()`
  | identityTyped                              -- `Identity(type_func=lambda x: int(x))`
  | logN                                       -- `LogN(base)`
  | normalize (lo hi : Rat) (isInt : Bool)     -- `Normalize(low, high, is_int)`
  | labelEncoder (cats : List Val)             -- `LabelEncoder().fit(cats)`
  | oneHot (cats : List Val)                   -- `CategoricalEncoder().fit(cats)`
  deriving Repr

/-- a transformer: a single stage or `Pipeline([...])` -/
inductive Tr
  | single (s : Stage)
  | pipeline (ss : List Stage)
  deriving Repr

/-- a list / 1-D array, or a 2-D array -/
inductive Col
  | vals (l : List Val)
  | mat (rows : List (List Rat))
  deriving Repr

/-- `LabelBinarizer.transform` of class index `k` out of `n` classes: all-zero column for one
class, single 0/1 column for two, one-hot row otherwise -/
def binarize (n k : Nat) : List Rat :=
  if n = 1 then [0]
  else if n = 2 then [if k = 1 then 1 else 0]
  else (List.range n).map (fun j => if j = k then 1 else 0)

/-- index of the first maximum (`np.argmax`), scanning with the best value so far -/
def argmaxFrom (best : Rat) (bi : Nat) : Nat → List Rat → Nat
  | _, [] => bi
  | i, x :: xs => if best < x then argmaxFrom x i (i + 1) xs else argmaxFrom best bi (i + 1) xs

def argmaxFirst : List Rat → Nat
  | [] => 0
  | x :: xs => argmaxFrom x 0 1 xs

def Stage.transform (L : Rat → Rat) : Stage → Col → Except Err Col
  | .identity, c => .ok c
  | .identityTyped, c => .ok c
  | .logN, .vals l =>
    match nums .valueError l with
    | .error e => .error e
    | .ok xs => .ok (.vals (xs.map (fun x => .num (L x))))
  | .normalize lo hi isInt, .vals l =>
    match nums .typeError l with
    | .error e => .error e
    | .ok xs =>
      if isInt then
        if xs.any (fun x => decide (hi < ((roundHalfEven x : Int) : Rat))) then .error .valueError
        else if xs.any (fun x => decide (((roundHalfEven x : Int) : Rat) < lo)) then .error .valueError
        else if hi - lo = 0 then .ok (.vals (xs.map (fun _ => .num 0)))
        else .ok (.vals (xs.map (fun x => .num ((((roundHalfEven x : Int) : Rat) - lo) / (hi - lo)))))
      else
        if xs.any (fun x => decide (hi + eps < x)) then .error .valueError
        else if xs.any (fun x => decide (x < lo - eps)) then .error .valueError
        else if hi - lo = 0 then .ok (.vals (xs.map (fun _ => .num 0)))
        else .ok (.vals (xs.map (fun x => .num ((x - lo) / (hi - lo)))))
  | .labelEncoder cats, .vals l =>
    let s := sortU cats
    match mapE (fun v => if v ∈ s then .ok (Val.int (s.idxOf v : Nat)) else .error Err.keyError) l with
    | .error e => .error e
    | .ok r => .ok (.vals r)
  | .oneHot cats, .vals l =>
    match mapE (fun v => if v ∈ cats then .ok (binarize cats.length (cats.idxOf v)) else .error Err.keyError) l with
    | .error e => .error e
    | .ok rows => .ok (.mat rows)
  | _, .mat _ => .error .unsupported

/-- `type_func(x)` with `type_func = int` -/
def identityTypedCell : Val → Except Err Val
  | .num q => .ok (.int (truncZero q))
  | .int i => .ok (.int i)
  | .bool b => .ok (.int (if b then 1 else 0))
  | .str _ => .error .valueError

/-- `inverse_mapping_[int(np.round(i))]` over the sorted categories `s` (a dict: `KeyError` for
an index that is not a key, negative ones included) -/
def labelInvCell (s : List Val) (x : Rat) : Except Err Val :=
  let k := roundHalfEven x
  if 0 ≤ k then
    match s[k.toNat]? with
    | some v => .ok v
    | none => .error .keyError
  else .error .keyError

/-- inverse of the one-hot / binarized encoding of one sample -/
def oneHotInv (cats : List Val) (row : List Rat) : Except Err Val :=
  match cats with
  | [] => .error .valueError
  | [c] => .ok c                                           -- `repeat(classes[0], len(y))`
  | [c0, c1] =>
    match row with
    | [x] => .ok (if 1/2 < x then c1 else c0)              -- threshold (pos+neg)/2
    | [_, x] => .ok (if 1/2 < x then c1 else c0)           -- `classes[y[:, 1]]`
    | _ => .error .valueError
  | _ =>
    match row with
    | [] => .error .valueError
    | _ => match cats[min (argmaxFirst row) (cats.length - 1)]? with   -- argmax, index clipped
      | some v => .ok v
      | none => .error .indexError

def Stage.inverse (E : Rat → Rat) : Stage → Col → Except Err Col
  | .identity, c => .ok c
  | .identityTyped, .vals l =>
    -- after `fix: Identity(type_func).inverse_transform converts every row`
    match mapE identityTypedCell l with
    | .error e => .error e
    | .ok r => .ok (.vals r)
  | .logN, .vals l =>
    match nums .valueError l with
    | .error e => .error e
    | .ok xs => .ok (.vals (xs.map (fun x => .num (E x))))
  | .normalize lo hi isInt, .vals l =>
    match nums .typeError l with
    | .error e => .error e
    | .ok xs =>
      if xs.any (fun x => decide (1 + eps < x)) then .error .valueError
      else if xs.any (fun x => decide (x < 0 - eps)) then .error .valueError
      else if isInt then .ok (.vals (xs.map (fun x => .int (roundHalfEven (x * (hi - lo) + lo)))))
      else .ok (.vals (xs.map (fun x => .num (x * (hi - lo) + lo))))
  | .labelEncoder cats, .vals l =>
    let s := sortU cats
    match nums .typeError l with
    | .error e => .error e
    | .ok xs =>
      match mapE (labelInvCell s) xs with
      | .error e => .error e
      | .ok r => .ok (.vals r)
  | .oneHot cats, .vals l =>
    match nums .typeError l with
    | .error e => .error e
    | .ok xs =>
      if 3 ≤ cats.length then .error .valueError      -- argmax over axis 1 of a 1-D array
      else
        match mapE (fun x => oneHotInv cats [x]) xs with
        | .error e => .error e
        | .ok r => .ok (.vals r)
  | .oneHot cats, .mat rows =>
    match mapE (oneHotInv cats) rows with
    | .error e => .error e
    | .ok r => .ok (.vals r)
  | _, .mat _ => .error .unsupported

def Tr.stages : Tr → List Stage
  | .single s => [s]
  | .pipeline ss => ss

/-- `for t in transformers: X = t.transform(X)` -/
def runTransform (L : Rat → Rat) : List Stage → Col → Except Err Col
  | [], c => .ok c
  | s :: ss, c =>
    match s.transform L c with
    | .error e => .error e
    | .ok c' => runTransform L ss c'

/-- `for t in transformers[::-1]: X = t.inverse_transform(X)` (argument already reversed) -/
def runInverse (E : Rat → Rat) : List Stage → Col → Except Err Col
  | [], c => .ok c
  | s :: ss, c =>
    match s.inverse E c with
    | .error e => .error e
    | .ok c' => runInverse E ss c'

def Tr.transform (L : Rat → Rat) (t : Tr) (c : Col) : Except Err Col := runTransform L t.stages c
def Tr.inverse (E : Rat → Rat) (t : Tr) (c : Col) : Except Err Col := runInverse E t.stages.reverse c

/-! ### dimensions -/

inductive Prior | uniform | logUniform
  deriving DecidableEq, Repr

/-- transforms of `Real` / `Integer` -/
inductive NumTr | identity | normalize
  deriving DecidableEq, Repr

/-- transforms of `Categorical` used by the search stack -/
inductive CatTr | identity | label | onehot | normalize
  deriving DecidableEq, Repr

inductive Dim
  | real (lo hi : Rat) (prior : Prior) (tr : NumTr)
  | int (lo hi : Int) (prior : Prior) (tr : NumTr)
  | cat (choices : List Val) (tr : CatTr)
  deriving Repr

/-- a dimension with the name it carries (`Dimension.name`) -/
structure NamedDim where
  name : String
  dim : Dim
  deriving Repr

/-- what the constructors accept and the property quantifies over: `low < high`
(`ValueError` otherwise), positive lower bound under a log prior, non-empty duplicate-free
category list, numeric type-homogeneous categories under the identity transform -/
def Dim.wf : Dim → Bool
  | .real lo hi p _ => decide (lo < hi) && (p != .logUniform || decide (0 < lo))
  | .int lo hi p _ => decide (lo < hi) && (p != .logUniform || decide (0 < lo))
  | .cat cs tr => !cs.isEmpty && decide cs.Nodup &&
      (tr != .identity || cs.all Val.isInt || cs.all Val.isNum)

/-- the pipeline `set_transformer` installs -/
def Dim.transformer (L : Rat → Rat) : Dim → Tr
  | .real lo hi .uniform .normalize => .pipeline [.identity, .normalize lo hi false]
  | .real lo hi .logUniform .normalize => .pipeline [.logN, .normalize (L lo) (L hi) false]
  | .real _ _ .uniform .identity => .single .identity
  | .real _ _ .logUniform .identity => .single .logN
  | .int lo hi .uniform .normalize => .pipeline [.identity, .normalize (lo : Rat) (hi : Rat) true]
  | .int lo hi .logUniform .normalize =>
      .pipeline [.logN, .normalize (L (lo : Rat)) (L (hi : Rat)) false]
  | .int _ _ .uniform .identity => .single .identity
  | .int _ _ .logUniform .identity => .single .logN
  | .cat cs .onehot => .single (.oneHot cs)
  | .cat cs .label => .single (.labelEncoder cs)
  | .cat cs .normalize =>
      .pipeline [.labelEncoder cs, .normalize 0 (((cs.length : Int) - 1 : Int) : Rat) true]
  | .cat cs .identity => if cs.all Val.isInt then .single .identityTyped else .single .identity

/-- `Dimension.transform` -/
def Dim.transform (L : Rat → Rat) (d : Dim) (col : List Val) : Except Err Col :=
  (d.transformer L).transform L (.vals col)

/-- `Real/Integer/Categorical.inverse_transform`: transformer inverse, then clip (`Real`, after
`fix: Real.inverse_transform clips`), clip and round (`Integer`), nothing (`Categorical`) -/
def Dim.inverseTransform (L E : Rat → Rat) (d : Dim) (c : Col) : Except Err (List Val) :=
  match (d.transformer L).inverse E c with
  | .error e => .error e
  | .ok (.mat _) => .error .unsupported
  | .ok (.vals l) =>
    match d with
    | .real lo hi _ _ =>
      match nums .typeError l with
      | .error e => .error e
      | .ok xs => .ok (xs.map (fun x => .num (clip lo hi x)))
    | .int lo hi _ _ =>
      match nums .typeError l with
      | .error e => .error e
      | .ok xs => .ok (xs.map (fun x => .int (roundHalfEven (clip (lo : Rat) (hi : Rat) x))))
    | .cat _ _ => .ok l

/-- `transformed_size` -/
def Dim.transformedSize : Dim → Nat
  | .cat cs .onehot => if cs.length = 2 then 1 else cs.length
  | _ => 1

def minRat : Rat → List Rat → Rat
  | m, [] => m
  | m, x :: xs => minRat (if x < m then x else m) xs

def maxRat : Rat → List Rat → Rat
  | m, [] => m
  | m, x :: xs => maxRat (if m < x then x else m) xs

/-- `transformed_bounds`, one `(low, high)` pair per transformed column -/
def Dim.transformedBounds (L : Rat → Rat) : Dim → List (Rat × Rat)
  | .real _ _ _ .normalize => [(0, 1)]
  | .real lo hi .uniform .identity => [(lo, hi)]
  | .real lo hi .logUniform .identity => [(L lo, L hi)]
  | .int _ _ _ .normalize => [(0, 1)]
  | .int lo hi .uniform .identity => [((lo : Rat), (hi : Rat))]
  | .int lo hi .logUniform .identity => [(L (lo : Rat), L (hi : Rat))]
  | .cat cs .label => [(0, (((cs.length : Int) - 1 : Int) : Rat))]
  | .cat cs .identity =>
    match cs.filterMap Val.toRat? with
    | [] => [(0, 0)]
    | x :: xs => [(minRat x xs, maxRat x xs)]
  | .cat _ .normalize => [(0, 1)]
  | .cat cs .onehot =>
    if cs.length = 2 then [(0, 1)] else List.replicate cs.length (0, 1)

/-- `point in dimension`, with the Python kind: a `Real` holds floats, an `Integer` ints -/
def memDim : Dim → Val → Bool
  | .real lo hi _ _, .num q => decide (lo ≤ q) && decide (q ≤ hi)
  | .int lo hi _ _, .int i => decide (lo ≤ i) && decide (i ≤ hi)
  | .cat cs _, v => decide (v ∈ cs)
  | _, _ => false

/-- a point (row) of the space: one member per dimension, nothing more -/
def memRow : List Dim → List Val → Bool
  | [], [] => true
  | d :: ds, v :: vs => memDim d v && memRow ds vs
  | _, _ => false

/-! ### the space: pack / unpack -/

/-- `np.asarray(c).reshape((n, -1))`: a 1-D result is one column, a 2-D result keeps its rows -/
def rowOfVal (v : Val) : Except Err (List Rat) :=
  match v.toRat? with
  | some q => .ok [q]
  | none => .error .unsupported

def Col.toRows : Col → Except Err (List (List Rat))
  | .vals l => mapE rowOfVal l
  | .mat rows => .ok rows

/-- `[X[i][j] for i in range(len(X))]` for the current first column -/
def headE : List Val → Except Err Val
  | [] => .error .indexError
  | v :: _ => .ok v

def heads (X : List (List Val)) : Except Err (List Val) := mapE headE X

/-- pack by dimension and transform: one block of rows per dimension -/
def transformCols (L : Rat → Rat) : List Dim → List (List Val) → Except Err (List (List (List Rat)))
  | [], _ => .ok []
  | d :: ds, X =>
    match heads X with
    | .error e => .error e
    | .ok col =>
      match d.transform L col with
      | .error e => .error e
      | .ok c =>
        match c.toRows with
        | .error e => .error e
        | .ok block =>
          match transformCols L ds (X.map List.tail) with
          | .error e => .error e
          | .ok rest => .ok (block :: rest)

/-- `np.hstack` of blocks that all have `m` rows -/
def hstack (m : Nat) : List (List (List Rat)) → List (List Rat)
  | [] => List.replicate m []
  | b :: bs => List.zipWith (· ++ ·) b (hstack m bs)

/-- `Space.transform` -/
def transform (L : Rat → Rat) (dims : List Dim) (X : List (List Val)) : Except Err (List (List Rat)) :=
  if dims.isEmpty || X.isEmpty then .error .valueError      -- `hstack([])`, `reshape((0, -1))`
  else
    match transformCols L dims X with
    | .error e => .error e
    | .ok blocks => .ok (hstack X.length blocks)

/-- `Xt[:, start]` (1-D) when `transformed_size == 1`, else `Xt[:, start:start+size]` (2-D), for the
columns that are still in front -/
def headNumE : List Rat → Except Err Val
  | [] => .error .indexError
  | x :: _ => .ok (.num x)

def sliceCol (off : Nat) (Xt : List (List Rat)) : Except Err Col :=
  if off = 1 then
    match mapE headNumE Xt with
    | .error e => .error e
    | .ok l => .ok (.vals l)
  else .ok (.mat (Xt.map (List.take off)))

/-- unpack by `transformed_size` and inverse-transform every dimension -/
def inverseCols (L E : Rat → Rat) : List Dim → List (List Rat) → Except Err (List (List Val))
  | [], _ => .ok []
  | d :: ds, Xt =>
    match sliceCol d.transformedSize Xt with
    | .error e => .error e
    | .ok c =>
      match d.inverseTransform L E c with
      | .error e => .error e
      | .ok col =>
        match inverseCols L E ds (Xt.map (List.drop d.transformedSize)) with
        | .error e => .error e
        | .ok rest => .ok (col :: rest)

/-- `_transpose_list_array`: `rows[i][j] = x[j][i]` for `i < len(x[0])` -/
def transposeAux : Nat → List (List Val) → Except Err (List (List Val))
  | 0, _ => .ok []
  | m + 1, cols =>
    match heads cols with
    | .error e => .error e
    | .ok row =>
      match transposeAux m (cols.map List.tail) with
      | .error e => .error e
      | .ok rest => .ok (row :: rest)

def transposeCols (cols : List (List Val)) : Except Err (List (List Val)) :=
  match cols with
  | [] => .error .assertionError
  | c0 :: _ => transposeAux c0.length cols

/-- `Space.inverse_transform` -/
def inverseTransform (L E : Rat → Rat) (dims : List Dim) (Xt : List (List Rat)) :
    Except Err (List (List Val)) :=
  match inverseCols L E dims Xt with
  | .error e => .error e
  | .ok cols => transposeCols cols

/-- `transformed_n_dims` -/
def transformedNDims (dims : List Dim) : Nat := (dims.map Dim.transformedSize).sum

/-- `Space.transformed_bounds` -/
def transformedBounds (L : Rat → Rat) (dims : List Dim) : List (Rat × Rat) :=
  dims.flatMap (Dim.transformedBounds L)

/-- every coordinate of a transformed row inside its `(low, high)` pair, and as many coordinates
as pairs -/
def inBounds : List Rat → List (Rat × Rat) → Bool
  | [], [] => true
  | x :: xs, b :: bs => decide (b.1 ≤ x) && decide (x ≤ b.2) && inBounds xs bs
  | _, _ => false

/-! ### executable checkers of the property on outputs of the implementation (proved equal to
their index-wise specifications in `Proofs/SpaceCheckers.lean`, run by the driver on the REAL
`transform` / `inverse_transform` outputs) -/

/-- `p` holds position by position and the two lists have the same length -/
def all2 {α β : Type} (p : α → β → Bool) : List α → List β → Bool
  | [], [] => true
  | a :: as, b :: bs => p a b && all2 p as bs
  | _, _ => false

/-- "the same value": floats within the tolerance `t`, everything else equal as Python objects of
the same kind -/
def cellClose (t : Rat) : Val → Val → Bool
  | .num a, .num b => decide (a - b ≤ t) && decide (b - a ≤ t)
  | v, w => decide (v = w)

/-- `transform(X)` has `n` rows of `transformed_n_dims` columns -/
def checkShape (dims : List Dim) (n : Nat) (Xt : List (List Rat)) : Bool :=
  decide (Xt.length = n) && Xt.all (fun r => decide (r.length = transformedNDims dims))

/-- every coordinate inside its `(low, high)` pair, as many coordinates as pairs -/
def checkBounds (bounds : List (Rat × Rat)) (Xt : List (List Rat)) : Bool :=
  Xt.all (fun r => all2 (fun x b => decide (b.1 ≤ x) && decide (x ≤ b.2)) r bounds)

/-- round trip: `XT` = the input points, every entry paired with its tolerance (0 for integers
and categories); `X'` = what `inverse_transform(transform(X))` returned: one row per row, one
entry per entry, the same values, every returned row a point of the space -/
def checkRoundTrip (dims : List Dim) (XT : List (List (Val × Rat))) (X' : List (List Val)) : Bool :=
  all2 (fun rowT row' => all2 (fun vt v' => cellClose vt.2 vt.1 v') rowT row') XT X' &&
    X'.all (memRow dims)

/-- dimensions whose `inverse_transform` snaps *any* input to a member (clip / round / lookup):
all but the identity-transformed categorical, which hands the value back unchanged -/
def Dim.snaps : Dim → Bool
  | .cat _ .identity => false
  | _ => true

/-! ### the code before `fix: Identity(type_func)…` (kept for the regression witnesses) -/

/-- `return [self.type_func(Xt[0])]` -/
def identityTypedInverseOld : List Val → Except Err (List Val)
  | [] => .error .indexError
  | .num q :: _ => .ok [.int (truncZero q)]
  | .int i :: _ => .ok [.int i]
  | .bool b :: _ => .ok [.int (if b then 1 else 0)]
  | .str _ :: _ => .error .valueError

end DH.Space
