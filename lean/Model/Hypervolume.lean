import Model.Pareto

/-!
# Model of `deephyper/skopt/moo/_hv.py` (`hypervolume`, `_HyperVolume`, `_MultiList`)

Two things live here (core Lean only, the one import is the Pareto model of C11
whose `ndsMask` is the pre-filter `hypervolume` calls first):

1. the executable **specification** `hv ref pts : Rat` — the volume of
   `{x | ∃ p ∈ pts, p ≤ x ≤ ref}` (minimisation), defined by slicing on the first
   coordinate: between two consecutive distinct first coordinates `c < c'`
   (clipped at the reference) the cross-section is constant and equals the
   `(m-1)`-dimensional volume of the tails of the points with first coordinate
   `≤ c`.  Dimension 0: `1` if a point is present, else `0`.
   Points that are not below the reference in some coordinate contribute nothing
   (their slabs are clipped away), so `hv` is the dominated volume for every
   input, not only for inputs inside the property's quantifier.

2. a direct functional **model of the code**: `hypervolumeCode` = NDS pre-filter,
   shift by the reference point, `preProcess` (one stable sort per dimension),
   `hvRecursive(dimIndex, length, bounds)` with its three branches
   (`dimIndex == 0`, `dimIndex == 1` = the 2-D sweep, and the general
   Fonseca–Paquete–López-Ibáñez step with the `ignore` flags, the cached
   `area`/`volume` arrays and the shared mutable `bounds`).  The multi-linked
   list becomes: per dimension the static sorted order of node ids plus the list
   of ids currently linked (`active`); node fields live in a state that is
   threaded through the recursion.

The model describes the code **after** the two repairs on branch `fix-g8`
(9767936: running product in the area initialisation, ecd8f06: `preProcess` sorts
from the last dimension down).  The pinned behaviour is kept behind two switches
(`cum`, `topDown`; `hypervolumeCodeV false false` = pinned code) for the regression
examples in `Props/C12.lean` and for classifying failing inputs in the harness.
-/

namespace DH.Hypervolume
open DH.Pareto (Vec wdVec ndsMask)

/-! ## 1. Specification -/

/-- first coordinate (vectors shorter than the reference are read as zero-padded) -/
def hd (p : Vec) : Rat := p.headD 0

/-- insert into a strictly increasing list, dropping duplicates -/
def insertCut (x : Rat) : List Rat → List Rat
  | [] => [x]
  | c :: cs => if x < c then x :: c :: cs else if x = c then c :: cs else c :: insertCut x cs

/-- the distinct values of `l`, increasing -/
def cutsOf (l : List Rat) : List Rat := l.foldr insertCut []

/-- integral over `[c₀, r]` of the right-continuous step function that takes the value
`A cᵢ` on `[cᵢ, cᵢ₊₁)` (last piece `[cₙ, r]`) -/
def slabs (A : Rat → Rat) (r : Rat) : List Rat → Rat
  | [] => 0
  | [c] => (r - c) * A c
  | c :: c' :: rest => (c' - c) * A c + slabs A r (c' :: rest)

/-- cross-section at first coordinate `t`: tails of the points with first coordinate `≤ t` -/
def proj (t : Rat) (pts : List Vec) : List Vec :=
  (pts.filter (fun p => decide (hd p ≤ t))).map List.tail

/-- the cut positions: distinct first coordinates not beyond the reference -/
def cuts (r : Rat) (pts : List Vec) : List Rat :=
  cutsOf ((pts.map hd).filter (fun c => decide (c ≤ r)))

/-- **the specification**: dominated hypervolume of `pts` w.r.t. `ref` (minimisation) -/
def hv : List Rat → List Vec → Rat
  | [], pts => if pts.isEmpty then 0 else 1
  | r :: rs, pts => slabs (fun t => hv rs (proj t pts)) r (cuts r pts)

/-- The same quantity, sliced in the order the code sweeps (last coordinate outermost). -/
def hvLast (ref : List Rat) (pts : List Vec) : Rat := hv ref.reverse (pts.map List.reverse)

/-! ### a faster evaluator of the same function (proved equal in `Proofs/Hypervolume.lean`)

Dominated points are dropped from every cross-section before recursing
(`C12_add_dominated` says that changes nothing). -/

/-- keep an antichain that weakly dominates everything seen so far -/
def pruneStep (kept : List Vec) (p : Vec) : List Vec :=
  if kept.any (fun y => wdVec y p) then kept else p :: kept.filter (fun y => !wdVec p y)

def prune (pts : List Vec) : List Vec := pts.foldl pruneStep []

def hvFast : List Rat → List Vec → Rat
  | [], pts => if pts.isEmpty then 0 else 1
  | r :: rs, pts =>
    let pts' := prune pts
    slabs (fun t => hvFast rs (proj t pts')) r (cuts r pts')

/-! ### cell counting on integer lattices (the property's own oracle) -/

/-- lower corners of the unit cells of the box `[0,d₀) × [0,d₁) × …` -/
def grid : List Nat → List Vec
  | [] => [[]]
  | d :: ds => (List.range d).flatMap (fun (c : Nat) => (grid ds).map (fun v => (c : Rat) :: v))

/-- number of unit cells of `[0,dims)` whose lower corner is weakly dominated by a point -/
def cellCount (dims : List Nat) (pts : List Vec) : Nat :=
  (grid dims).countP (fun c => pts.any (fun p => wdVec p c))

/-! ## 2. Model of the code -/

/-- `cargo[i]` (numpy rows all have `m` entries; the default is never read on such input) -/
def co (p : Vec) (i : Nat) : Rat := p.getD i 0

/-- the double `-1.0e308` (initial `bounds`), exactly -/
def negInf : Rat :=
  -((100000000000000001097906362944045541740492309677311846336810682903157585404911491537163328978494688899061249669721172515611590283743140088328307009198146046031271664502933027185697489699588559043338384466165001178426897626212945177628091195786707458122783970171784415105291802893207873272974885715430223118336 : Int) : Rat)

/-- `relevantPoints -= referencePoint` (only `if any(referencePoint)`) -/
def subVec : Vec → Vec → Vec
  | a :: as, b :: bs => (a - b) :: subVec as bs
  | as, [] => as
  | [], _ => []

def shift (ref : Vec) (front : List Vec) : List Vec :=
  if ref.any (fun r => r != 0) then front.map (fun p => subVec p ref) else front

def insertByKey (key : Nat → Rat) (a : Nat) : List Nat → List Nat
  | [] => [a]
  | b :: l => if key a ≤ key b then a :: b :: l else b :: insertByKey key a l

/-- stable insertion sort (elements are inserted from the right, each in front of the first
element whose key is not smaller) -/
def sortByKey (key : Nat → Rat) (ids : List Nat) : List Nat := ids.foldr (insertByKey key) []

/-- `sortByDimension`: `decorated.sort()` on `(cargo[i], node)` tuples.  Nodes with equal
`cargo[i]` compare as equivalent (`Node.__lt__` is `all(cargo < other.cargo)`, false when
one coordinate ties), timsort is stable, so this is a stable sort on `cargo[i]`. -/
def sortByDim (cargo : List Vec) (i : Nat) (ids : List Nat) : List Nat :=
  sortByKey (fun a => co (cargo.getD a []) i) ids

/-- `preProcess`: list `i` of the multi-list = the nodes sorted by dimension `i`, each (stable)
sort applied to the result of the previous one.

`topDown = true` (the code after fix `ecd8f06`): `for i in reversed(range(dimensions))`, so ties in
list `i` are ordered as in list `i+1`.  `topDown = false` is the pinned code (`for i in
range(dimensions)`), kept to classify failures and for the regression examples. -/
def preOrdersUp (cargo : List Vec) (m : Nat) : List (List Nat) :=
  let rec go (i : Nat) (fuel : Nat) (cur : List Nat) : List (List Nat) :=
    match fuel with
    | 0 => []
    | fuel + 1 =>
      let s := sortByDim cargo i cur
      s :: go (i + 1) fuel s
  go 0 m (List.range cargo.length)

def preOrdersDown (cargo : List Vec) (m : Nat) : List (List Nat) :=
  let rec go (fuel : Nat) (cur : List Nat) (acc : List (List Nat)) : List (List Nat) :=
    match fuel with
    | 0 => acc
    | i + 1 =>
      let s := sortByDim cargo i cur
      go i s (s :: acc)
  go m (List.range cargo.length) []

def preOrders (topDown : Bool) (cargo : List Vec) (m : Nat) : List (List Nat) :=
  if topDown then preOrdersDown cargo m else preOrdersUp cargo m

/-- `_MultiList.Node` -/
structure Node where
  cargo : Vec
  ignore : Nat
  area : List Rat
  volume : List Rat
  deriving Repr

/-- the mutable state shared by all recursive calls -/
structure St where
  nodes : List Node
  bounds : List Rat
  deriving Repr

def sentinelNode (m : Nat) : Node := ⟨[], 0, List.replicate m 0, List.replicate m 0⟩

def St.node (st : St) (i : Nat) : Node := st.nodes.getD i (sentinelNode st.bounds.length)

def St.setNode (st : St) (i : Nat) (n : Node) : St := { st with nodes := st.nodes.set i n }

/-- `prev[d]` of the first node is the sentinel: `area = volume = [0.0]*m` -/
def St.nodeOpt (st : St) : Option Nat → Node
  | some i => st.node i
  | none => sentinelNode st.bounds.length

/-- the `if bounds[i] > node.cargo[i]: bounds[i] = node.cargo[i]` loop of `remove`/`reinsert`
for `i in range(index)` -/
def updBounds (d : Nat) (bounds : List Rat) (cargo : Vec) : List Rat :=
  bounds.zipIdx.map (fun (b, i) => if decide (i < d) && decide (co cargo i < b) then co cargo i else b)

/-- branch `dimIndex == 0`: `-sentinel.next[0].cargo[0]` -/
def level0 (l0 : List Vec) : Rat :=
  match l0 with
  | [] => 0
  | q :: _ => -(co q 0)

/-- loop of branch `dimIndex == 1` (`h`, `q`, `hvol` are the code's variables) -/
def sweep2Loop (h : Rat) (q : Vec) (hvol : Rat) : List Vec → Rat
  | [] => hvol + h * co q 1
  | p :: rest =>
    sweep2Loop (if co p 0 < h then co p 0 else h) p (hvol + h * (co q 1 - co p 1)) rest

/-- branch `dimIndex == 1`: two dimensions, over list 1 (sorted by `cargo[1]`) -/
def sweep2 : List Vec → Rat
  | [] => 0
  | q :: rest => sweep2Loop (co q 0) q 0 rest

/-- first loop of the general branch: `if q.ignore < dimIndex: q.ignore = 0` for every node of
list `dimIndex` -/
def resetIgnore (d : Nat) (st : St) (l : List Nat) : St :=
  l.foldl (fun st i =>
    let n := st.node i
    if n.ignore < d then st.setNode i { n with ignore := 0 } else st) st

/-- second loop: walk list `dimIndex` from its end and unlink nodes from lists `0..dimIndex-1`
`while length > 1 and (q.cargo[d] > bounds[d] or q.prev[d].cargo[d] >= bounds[d])`.
`rev` = the still linked part, last node first; returns (kept part reversed, removed ascending). -/
def removeLoop (d : Nat) : List Nat → List Nat → St → List Nat × List Nat × St
  | q :: q' :: rest, removed, st =>
    let bd := st.bounds.getD d 0
    if decide (bd < co (st.node q).cargo d) || decide (bd ≤ co (st.node q').cargo d) then
      removeLoop d (q' :: rest) (q :: removed)
        { st with bounds := updBounds d st.bounds (st.node q).cargo }
    else (q :: q' :: rest, removed, st)
  | rev, removed, st => (rev, removed, st)

/-- the running products `1·(-c₀), 1·(-c₀)(-c₁), …` (`d` entries) -/
def runProd (cargo : Vec) : Nat → Nat → Rat → List Rat
  | _, 0, _ => []
  | i, fuel + 1, acc =>
    let a := acc * -(co cargo i)
    a :: runProd cargo (i + 1) fuel a

/-- the single-node initialisation of `q.area[0..d]`.

`cum = true` (the code after fix `9767936`): `qArea[0] = 1; for i in range(d): qArea[i+1] =
qArea[i] * -qCargo[i]`.
`cum = false` is the pinned code `qArea[1:d+1] = [qArea[i] * -qCargo[i] for i in range(d)]`,
whose right-hand side is evaluated on the list as it is after `qArea[0] = 1`, before the slice
is stored — not a running product. -/
def areaInit (cum : Bool) (d : Nat) (area : List Rat) (cargo : Vec) : List Rat :=
  let a0 := area.set 0 1
  let rhs := if cum then runProd cargo 0 d 1
             else (List.range d).map (fun i => a0.getD i 0 * -(co cargo i))
  a0.take 1 ++ rhs ++ a0.drop (d + 1)

/-- `q.volume[d] = v` -/
def setVolume (d q : Nat) (v : Rat) (st : St) : St :=
  let n := st.node q
  st.setNode q { n with volume := n.volume.set d v }

/-- `q.area[d] = a` -/
def setArea (d q : Nat) (a : Rat) (st : St) : St :=
  let n := st.node q
  st.setNode q { n with area := n.area.set d a }

/-- `q.ignore = d` -/
def setIgnore (d q : Nat) (st : St) : St :=
  let n := st.node q
  st.setNode q { n with ignore := d }

/-- the tail shared by the first node and every re-inserted node:
```
q.volume[d] = hvol
if q.ignore >= d: q.area[d] = q.prev[d].area[d]
else:
    q.area[d] = hvRecursive(d - 1, length, bounds)
    if q.area[d] <= q.prev[d].area[d]: q.ignore = d
``` -/
def settle (d : Nat) (rec : List Nat → St → Rat × St) (q : Nat) (prev : Option Nat)
    (active : List Nat) (hvol : Rat) (st : St) : St :=
  let st := setVolume d q hvol st
  if d ≤ (st.node q).ignore then
    setArea d q ((st.nodeOpt prev).area.getD d 0) st
  else
    let r := rec active st
    let st := setArea d q r.1 r.2
    if r.1 ≤ (st.nodeOpt prev).area.getD d 0 then setIgnore d q st else st

/-- third loop: re-insert the removed nodes in increasing `cargo[d]`:
```
hvol += q.area[d] * (p.cargo[d] - q.cargo[d]); bounds[d] = p.cargo[d]
reinsert(p, d, bounds); length += 1; q = p; p = p.next[d]; <settle q>
``` -/
def reinsertLoop (d : Nat) (rec : List Nat → St → Rat × St) :
    List Nat → Nat → List Nat → Rat → St → Nat × Rat × St
  | [], q, _, hvol, st => (q, hvol, st)
  | p :: rest, q, active, hvol, st =>
    let nq := st.node q
    let np := st.node p
    let hvol := hvol + nq.area.getD d 0 * (co np.cargo d - co nq.cargo d)
    let st := { st with bounds := updBounds d (st.bounds.set d (co np.cargo d)) np.cargo }
    let active := active ++ [p]
    let st := settle d rec p (some q) active hvol st
    reinsertLoop d rec rest p active hvol st

/-- start of the sweep at the last node `q` that stays linked:
```
if length > 1: hvol = q.prev[d].volume[d] + q.prev[d].area[d] * (q.cargo[d] - q.prev[d].cargo[d])
else:          qArea[0] = 1; qArea[1..d] = …          (hvol stays 0.0)
``` -/
def startNode (cum : Bool) (d : Nat) (q : Nat) (prev : Option Nat) (st : St) : Rat × St :=
  let nq := st.node q
  match prev with
  | some qp =>
    let np := st.node qp
    (np.volume.getD d 0 + np.area.getD d 0 * (co nq.cargo d - co np.cargo d), st)
  | none => (0, st.setNode q { nq with area := areaInit cum d nq.area nq.cargo })

/-- `hvol -= q.area[d] * q.cargo[d]; return hvol` (`out` = last node, `hvol`, state) -/
def finish (d : Nat) (out : Nat × Rat × St) : Rat × St :=
  let nq := out.2.2.node out.1
  (out.2.1 - nq.area.getD d 0 * co nq.cargo d, out.2.2)

/-- the general branch (`dimIndex ≥ 2`) over list `dimIndex` = `l` (ids, increasing `cargo[d]`);
`rec` is `hvRecursive(dimIndex - 1, ·, bounds)` on the ids currently linked in the lower lists -/
def levelN (cum : Bool) (d : Nat) (rec : List Nat → St → Rat × St) (l : List Nat) (st : St) : Rat × St :=
  let st := resetIgnore d st l
  match removeLoop d l.reverse [] st with
  | ([], _, st) => (0, st)    -- unreachable: `length == 0` returned earlier
  | (q :: keptRev, removed, st) =>
    let prev := keptRev.head?
    let s := startNode cum d q prev st
    let active := (q :: keptRev).reverse
    let st := settle d rec q prev active s.1 s.2
    finish d (reinsertLoop d rec removed q active s.1 st)

/-- list `i` of the multi-list restricted to the ids currently linked in it -/
def linked (orders : List (List Nat)) (i : Nat) (active : List Nat) : List Nat :=
  (orders.getD i []).filter (fun k => active.contains k)

/-- `hvRecursive(dimIndex, length, bounds)`; `active` = ids linked in lists `0..dimIndex`
(`length = active.length`) -/
def hvRecursive (cum : Bool) (orders : List (List Nat)) : Nat → List Nat → St → Rat × St
  | 0, active, st =>
    if active.isEmpty then (0, st)
    else (level0 ((linked orders 0 active).map (fun i => (st.node i).cargo)), st)
  | 1, active, st =>
    if active.isEmpty then (0, st)
    else (sweep2 ((linked orders 1 active).map (fun i => (st.node i).cargo)), st)
  | d + 2, active, st =>
    if active.isEmpty then (0, st)
    else levelN cum (d + 2) (hvRecursive cum orders (d + 1)) (linked orders (d + 2) active) st

/-- `_HyperVolume(ref).compute(front)`; `none` for zero objectives (the code then calls
`hvRecursive(-1, …)`, which is outside the property).  `cum`, `topDown`: see `areaInit`,
`preOrders` (both `true` = the repaired code). -/
def computeV (cum topDown : Bool) (ref : Vec) (front : List Vec) : Option Rat :=
  let m := ref.length
  if m = 0 then none else
  let rel := shift ref front
  let orders := preOrders topDown rel m
  let st : St := ⟨rel.map (fun p => ⟨p, 0, List.replicate m 0, List.replicate m 0⟩),
                  List.replicate m negInf⟩
  some (hvRecursive cum orders (m - 1) (List.range rel.length) st).1

def compute (ref : Vec) (front : List Vec) : Option Rat := computeV true true ref front

/-- `pointset[nds]` -/
def selectMask (pts : List Vec) (mask : List Bool) : List Vec :=
  (pts.zip mask).filterMap (fun (p, b) => if b then some p else none)

/-- `hypervolume(pointset, ref)`; `order` is what `np.argsort` returned inside
`non_dominated_set` (environment input, as in C11) -/
def hypervolumeCodeV (cum topDown : Bool) (pts : List Vec) (ref : Vec) (order : List Nat) : Option Rat :=
  computeV cum topDown ref (selectMask pts (ndsMask pts order))

/-- the repaired code -/
def hypervolumeCode (pts : List Vec) (ref : Vec) (order : List Nat) : Option Rat :=
  hypervolumeCodeV true true pts ref order

end DH.Hypervolume
