/-!
# Model of the files a search keeps in its `log_dir` (property C15)

Code modelled (as it is AFTER the `fix:` commits of branches `fix-g11` and `fix-g11b`):

* `Search.__init__` (`hpo/_search.py`): if `results.csv` exists it is renamed to
  `results_<YYYYmmdd-HHMMSS>.csv`; while that name is taken a counter suffix `_1`, `_2`, …
  is tried (`os.path.exists` loop), then `os.rename`; the evaluator's dump state
  (`_start_dumping`, `_columns_dumped`) is reset, also for an evaluator that served another search.
* `Evaluator._write_rows_to_csv` (`evaluator/_evaluator.py`), called by
  `dump_jobs_done_to_csv` after every gather: the FIRST dump of a search writes header + rows to
  `results.csv.tmp` (`open(…, "w")`), renames a `results.csv` that exists at that moment (written by
  another search since this one was created) like `Search.__init__` does, and moves the temporary
  file in place with `os.replace`; later dumps `open(…, "a")`, write complete rows, close.  A text file object turns the rows into
  `write(2)` calls of whole lines (observed: CPython flushes its 8 KiB buffer on row
  boundaries); how many lines go into each `write` is an environment choice (`sizes`).
* `Search.extend_results_with_pareto_efficient_indicator` at the end of every `search()` call:
  `pd.read_csv`, and for a multi-objective table `df.to_csv("results.csv.tmp")` +
  `os.replace` (every row gets the extra `pareto_efficient` cell); then `pd.read_csv` again.

The file system is `name ↦ list of lines`, the operations are the system calls the code makes
(what `strace` shows), a crash is "stop after any prefix of the event trace".  Rows are opaque
complete lines tagged with the job they belong to (the cell contents are C04's business).

Core Lean only (no imports).
-/

namespace DH.Files

/-! ## names, lines, file system -/

/-- the names that occur in a `log_dir` -/
inductive Name
  | results                              -- `results.csv`
  | tmp                                  -- `results.csv.tmp`
  | backup (stamp : String) (k : Nat)    -- `results_<stamp>.csv` (k = 0), `results_<stamp>_<k>.csv`
  | other (s : String)                   -- anything else (context.yaml, user files)
  deriving DecidableEq, Repr

/-- a job: (index of the search that ran it, job id inside that search) -/
structure Job where
  search : Nat
  id : Nat
  deriving DecidableEq, Repr

/-- one line of a results file.  `ext` = the line carries the `pareto_efficient` cell. -/
inductive Line
  | header (ext : Bool)
  | row (j : Job) (ext : Bool)
  | torn (j : Job)                       -- an incomplete line (never written by the protocol)
  deriving DecidableEq, Repr

abbrev Content := List Line

/-- association list, first match wins; `set` keeps at most one entry per name -/
abbrev FS := List (Name × Content)

def get : FS → Name → Option Content
  | [], _ => none
  | (m, c) :: fs, n => if m = n then some c else get fs n

def del : FS → Name → FS
  | [], _ => []
  | (m, c) :: fs, n => if m = n then del fs n else (m, c) :: del fs n

def set (fs : FS) (n : Name) (c : Content) : FS := (n, c) :: del fs n

/-! ## system calls -/

inductive Op
  | openW (n : Name)                     -- openat(O_WRONLY|O_CREAT|O_TRUNC)
  | openA (n : Name)                     -- openat(O_WRONLY|O_CREAT|O_APPEND)
  | openR (n : Name)                     -- openat(O_RDONLY)
  | write (n : Name) (ls : List Line)    -- write(fd of n, …): appends at the end of the file
  | close (n : Name)
  | rename (a b : Name)                  -- rename / os.replace: silently overwrites `b`
  deriving DecidableEq, Repr

/-- effect of one system call on the directory (a failing call changes nothing) -/
def step (fs : FS) : Op → FS
  | .openW n => set fs n []
  | .openA n => match get fs n with
    | none => set fs n []
    | some _ => fs
  | .openR _ => fs
  | .write n ls => match get fs n with
    | none => fs
    | some c => set fs n (c ++ ls)
  | .close _ => fs
  | .rename a b => match get fs a with
    | none => fs
    | some c => set (del fs a) b c

/-- would the call fail (ENOENT / write to a file that is not there)?  Errors are outputs. -/
def opOk (fs : FS) : Op → Bool
  | .openR n => (get fs n).isSome
  | .write n _ => (get fs n).isSome
  | .rename a _ => (get fs a).isSome
  | _ => true

/-! ## content of a results file -/

def jobsOf : Content → List Job
  | [] => []
  | .row j _ :: ls => j :: jobsOf ls
  | .torn j :: ls => j :: jobsOf ls
  | .header _ :: ls => jobsOf ls

/-- `DataFrame.to_csv` after the `pareto_efficient` column was added: every line gets the cell -/
def Line.extend : Line → Line
  | .header _ => .header true
  | .row j _ => .row j true
  | .torn j => .torn j

def extendAll (c : Content) : Content := c.map Line.extend

def rowsFor (js : List Job) : List Line := js.map (fun j => Line.row j false)

/-- what is left of a line when the `write(2)` that carries it is cut short inside it -/
def Line.tear : Line → Line
  | .row j _ => .torn j
  | .torn j => .torn j
  | .header _ => .torn ⟨0, 0⟩

/-- a torn `write(2)`: the lines before `l` arrive, `l` arrives incomplete, the rest not at all -/
def tornPayload (a : List Line) (l : Line) : List Line := a ++ [l.tear]

/-- a complete data row that fits under a header with flag `e` (not more cells than the header) -/
def rowOk (e : Bool) : Line → Bool
  | .row _ e' => !e' || e
  | _ => false

/-- header line + at least one row, only complete rows, none with more cells than the header -/
def wellFormed : Content → Bool
  | .header e :: rows => !rows.isEmpty && rows.all (rowOk e)
  | _ => false

/-- every element of `a` occurs in `b` -/
def subsetB (a b : List Job) : Bool := a.all (fun j => b.contains j)

/-- the checker run on the bytes found on disk after a kill: `done` = jobs whose run-function
returned (completion log), `dumped` = jobs whose dump had returned -/
def wellFormedPrefix (c : Content) (done dumped : List Job) : Bool :=
  wellFormed c && subsetB (jobsOf c) done && subsetB dumped (jobsOf c)

/-- decidable form of the property at one crash point (`Proofs/Files.lean`: `Vis`) -/
def visibleOk (res : Option Content) (done dumped : List Job) : Bool :=
  match res with
  | none => dumped.isEmpty
  | some c => wellFormedPrefix c done dumped

/-- what a torn append may leave at worst: a good table followed by ONE incomplete line of a
finished job -/
def tornLastOnly (c : Content) (done dumped : List Job) : Bool :=
  match c.reverse with
  | .torn j :: r => done.contains j && wellFormedPrefix r.reverse done dumped
  | _ => false

/-! ## model of what `CBO.fit_surrogate(path)` needs from the file
(`pd.read_csv` + `filter_failed_objectives` + column selection) -/

inductive LoadErr
  | emptyData          -- pandas.errors.EmptyDataError: no columns to parse
  | noHeader           -- first line is not the header: the p:/objective columns are missing → ValueError
  | tooManyFields      -- pandas.errors.ParserError: a row has more cells than the header
  | headerAsRow        -- a header line among the rows: objective cell is a non-numeric string → ValueError
  | noRows             -- header only: nothing to fit ("Found array with 0 sample(s)") → ValueError
  deriving DecidableEq, Repr

def loadRows (e : Bool) : List Line → Except LoadErr (List Job)
  | [] => .ok []
  | .row j e' :: rest =>
    if e' && !e then .error .tooManyFields
    else match loadRows e rest with
      | .ok js => .ok (j :: js)
      | .error x => .error x
  | .torn j :: rest =>
    -- pandas accepts a short line (missing cells become NaN): the row is loaded, wrongly
    match loadRows e rest with
      | .ok js => .ok (j :: js)
      | .error x => .error x
  | .header _ :: _ => .error .headerAsRow

def reload : Content → Except LoadErr (List Job)
  | [] => .error .emptyData
  | [.header _] => .error .noRows
  | .header e :: rows => loadRows e rows
  | _ :: _ => .error .noHeader

/-! ## the protocol -/

/-- split a payload into the pieces handed to successive `write` calls: `sizes` are the numbers of
lines per call (environment: buffer flushes); what is left goes into a last call -/
def chunk : List Nat → List Line → List (List Line)
  | [], [] => []
  | [], l => [l]
  | 0 :: ss, l => chunk ss l
  | (_ + 1) :: _, [] => []
  | (s + 1) :: ss, l => l.take (s + 1) :: chunk ss (l.drop (s + 1))

/-- events of a run: system calls and ghost events (history variables) -/
inductive Ev
  | sys (op : Op)
  | created                 -- ghost: a new search object starts, its evaluator's dump state is fresh
  | reused                  -- ghost (pinned code only): a new search object starts with an evaluator
                            -- that keeps its `_start_dumping` flag from the previous search
  | done (j : Job)          -- ghost: the run-function of `j` returned
  | dumped (js : List Job)  -- ghost: `dump_jobs_done_to_csv` returned, rows of `js` handed to the OS
  deriving DecidableEq, Repr

structure St where
  fs : FS
  started : Bool            -- `evaluator._start_dumping`
  done : List Job           -- ghost: every job whose run-function has returned (all searches)
  dumped : List Job         -- ghost: jobs dumped by the current search
  deriving Repr

def exec (s : St) : Ev → St
  | .sys op => { s with fs := step s.fs op }
  | .created => { s with started := false, dumped := [] }
  | .reused => { s with dumped := [] }
  | .done j => { s with done := s.done ++ [j] }
  | .dumped js => { s with started := true, dumped := s.dumped ++ js }

def execAll (s : St) (evs : List Ev) : St := evs.foldl exec s

/-- `while os.path.exists(name): count += 1` — first index ≥ `k` whose backup name is free
(`fuel` = number of directory entries is always enough, see `Proofs/Files.lean`) -/
def freeIdx (fs : FS) (stamp : String) : Nat → Nat → Nat
  | k, 0 => k
  | k, fuel + 1 => if (get fs (.backup stamp k)).isSome then freeIdx fs stamp (k + 1) fuel else k

def backupName (fs : FS) (stamp : String) : Name :=
  .backup stamp (freeIdx fs stamp 0 fs.length)

def writes (n : Name) (cs : List (List Line)) : List Ev := cs.map (fun c => Ev.sys (.write n c))

/-- which fixes are in place (all `true` = the repaired code; the pinned tree is all `false`) -/
structure Cfg where
  uniqueBackup : Bool      -- 10b: counter suffix while the backup name is taken
  atomicRewrite : Bool     -- 10a: Pareto rewrite through results.csv.tmp + os.replace
  atomicCreate : Bool      -- 10c: first dump through results.csv.tmp + os.replace
  keepForeign : Bool       -- 10d: first dump renames a results.csv written by another search
  resetAlways : Bool       -- 10e: Search.__init__ always resets the evaluator's dump state
  deriving Repr, DecidableEq

def fixed : Cfg := ⟨true, true, true, true, true⟩
def pinned : Cfg := ⟨false, false, false, false, false⟩

/-- what the program does between two crash-relevant points -/
inductive Act
  | create (stamp : String)                      -- `Search.__init__` (`time.strftime` gave `stamp`)
  | recreate (stamp : String)                    -- `Search.__init__` given the evaluator of the previous search
  | resume                                       -- a search object that was constructed earlier, when
                                                 -- the directory held no results.csv, starts to act
  | finish (j : Job)                             -- the run-function of `j` returns
  | dump (js : List Job) (sizes : List Nat) (stamp : String)
      -- `dump_jobs_done_to_csv` with rows for `js` (`stamp`: `time.strftime` if it has to rename)
  | endCall (multi : Bool) (sizes : List Nat)    -- end of `search()`: pareto column + `read_csv`
  deriving Repr

def backupFor (cfg : Cfg) (fs : FS) (stamp : String) : Name :=
  if cfg.uniqueBackup then backupName fs stamp else .backup stamp 0

def expand (cfg : Cfg) (s : St) : Act → List Ev
  | .create stamp =>
    .created ::
      (match get s.fs .results with
       | none => []
       | some _ => [.sys (.rename .results (backupFor cfg s.fs stamp))])
  | .recreate stamp =>
    -- the pinned code resets `_start_dumping` only when it finds (and renames) a results.csv
    (if cfg.resetAlways || (get s.fs .results).isSome then Ev.created else Ev.reused) ::
      (match get s.fs .results with
       | none => []
       | some _ => [.sys (.rename .results (backupFor cfg s.fs stamp))])
  | .resume => [.created]
  | .finish j => [.done j]
  | .dump js sizes stamp =>
    if js = [] then []
    else if s.started then
      .sys (.openA .results) :: writes .results (chunk sizes (rowsFor js))
        ++ [.sys (.close .results), .dumped js]
    else if cfg.atomicCreate then
      .sys (.openW .tmp) :: writes .tmp (chunk sizes (.header false :: rowsFor js))
        ++ .sys (.close .tmp) ::
          ((match get s.fs .results with
            | some _ => if cfg.keepForeign then [.sys (.rename .results (backupFor cfg s.fs stamp))] else []
            | none => [])
           ++ [.sys (.rename .tmp .results), .dumped js])
    else
      .sys (.openW .results) :: writes .results (chunk sizes (.header false :: rowsFor js))
        ++ [.sys (.close .results), .dumped js]
  | .endCall multi sizes =>
    match get s.fs .results with
    | none => []                                   -- "Could not find results file": returns None
    | some c =>
      [.sys (.openR .results), .sys (.close .results)]
      ++ (if multi then
            (if cfg.atomicRewrite then
              .sys (.openW .tmp) :: writes .tmp (chunk sizes (extendAll c))
                ++ [.sys (.close .tmp), .sys (.rename .tmp .results)]
            else
              .sys (.openW .results) :: writes .results (chunk sizes (extendAll c))
                ++ [.sys (.close .results)])
          else [])
      ++ [.sys (.openR .results), .sys (.close .results)]

/-- the event trace of a list of actions -/
def trace (cfg : Cfg) : St → List Act → List Ev
  | _, [] => []
  | s, a :: as => expand cfg s a ++ trace cfg (execAll s (expand cfg s a)) as

/-- one process: a search is created, acts, and the process is killed after `cut` events
(`cut ≥` length of the trace = it ran to the end) -/
structure Run where
  stamp : String
  acts : List Act
  cut : Nat
  deriving Repr

def runTrace (cfg : Cfg) (s : St) (r : Run) : List Ev :=
  (trace cfg s (.create r.stamp :: r.acts)).take r.cut

/-- `searchFiles`: the events of a sequence of processes working in one `log_dir` -/
def searchFiles (cfg : Cfg) : St → List Run → List Ev
  | _, [] => []
  | s, r :: rs => runTrace cfg s r ++ searchFiles cfg (execAll s (runTrace cfg s r)) rs

def emptyDir : St := { fs := [], started := false, done := [], dumped := [] }

/-- system calls of an event list (what `strace` shows) -/
def sysOf : List Ev → List Op
  | [] => []
  | .sys op :: es => op :: sysOf es
  | _ :: es => sysOf es

end DH.Files
