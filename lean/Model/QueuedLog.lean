import Model.Queued

/-!
# Observable logs of a queued-evaluator session and the property C17 stated over them

A *log* is what can be seen from outside: `submit n` calls, the run-function's own
`(start, job, dequed)` / `(end, job)` lines, the contents of `evaluator.queue` when a `close()`
returns, and at the end of the session the `dequed` metadata of every job, the jobs the gathers
returned, the final queue and whether any call raised.

`LogSpec` is the property C17 as a proposition over such a log; `checkLog` decides it
(`Props/C17.lean`: `C17_checker`), and the log of every complete run of the model satisfies it
(`C17_model_logs_ok`).  The harness sends the log of the REAL evaluator to the driver, which
evaluates `checkLog` on it.  Imports only the model (core Lean).
-/

namespace DH.Queued

inductive LEv (R : Type)
  | submit (n : Nat)
  | start (j : Nat) (recv : Option (List R))
  | endRun (j : Nat)
  /-- `close()` returned; `q` = the queue then -/
  | closed (q : List R)
  deriving DecidableEq, Repr

structure Log (R : Type) where
  q0 : List R
  pop : Nat
  events : List (LEv R)
  /-- `metas[j]` = the resources named by `job.metadata["dequed"]` of job `j` (`none`: not set) -/
  metas : List (Option (List R))
  /-- jobs handed back by the gathers -/
  returned : List Nat
  finalQueue : List R
  /-- some `submit` / `gather` / `close` call raised -/
  error : Bool
  deriving Repr

/-- what the observer tracks while reading the events -/
structure LAcc (R : Type) where
  nsub : Nat
  /-- jobs `< closedOver` were ended by a `close()` (normally before it, or cancelled by it) -/
  closedOver : Nat
  /-- evaluations inside the run-function, with what they received -/
  running : List (Nat × List R)
  /-- what each evaluation's run-function received -/
  recvOf : List (Nat × List R)
  deriving Repr

variable {R : Type}

def LAcc.init : LAcc R := { nsub := 0, closedOver := 0, running := [], recvOf := [] }

def nextL (a : LAcc R) : LEv R → LAcc R
  | .submit n => { a with nsub := a.nsub + n }
  | .start j (some l) =>
    if j < a.closedOver then a else { a with running := (j, l) :: a.running, recvOf := (j, l) :: a.recvOf }
  | .start _ none => a
  | .endRun j => if j < a.closedOver then a else { a with running := a.running.filter (fun x => x.1 != j) }
  | .closed _ => { a with closedOver := a.nsub, running := [] }

/-- the event-level clauses: count, exclusivity, everything back at close -/
def EvOk (q0 : List R) (pop : Nat) (a : LAcc R) : LEv R → Prop
  | .submit _ => True
  | .start j recv =>
    -- a call the pool starts for an evaluation that a close() had already ended is not an evaluation
    j < a.closedOver ∨
      ∃ l, recv = some l ∧ l.length = pop ∧ ∀ x ∈ a.running, ∀ r ∈ l, r ∉ x.2
  | .endRun _ => True
  | .closed q => q.Perm q0

def EventsOk (q0 : List R) (pop : Nat) : LAcc R → List (LEv R) → Prop
  | _, [] => True
  | a, e :: es => EvOk q0 pop a e ∧ EventsOk q0 pop (nextL a e) es

def accAfter (a : LAcc R) : List (LEv R) → LAcc R
  | [] => a
  | e :: es => accAfter (nextL a e) es

/-- the end-of-session clauses: metadata, returned, progress -/
def FinalOk (lg : Log R) (a : LAcc R) : Prop :=
  lg.error = false ∧ lg.returned.Nodup ∧
  (∀ j, j < a.nsub → j ∈ lg.returned ∨ j < a.closedOver) ∧
  lg.finalQueue.Perm lg.q0 ∧
  (∀ x ∈ a.recvOf, ∀ m, lg.metas[x.1]? = some (some m) → m = x.2)

/-- **the property C17 over an observable log** -/
def LogSpec (lg : Log R) : Prop :=
  EventsOk lg.q0 lg.pop LAcc.init lg.events ∧ FinalOk lg (accAfter LAcc.init lg.events)

/-! ### the decision procedure -/

section decide
variable [DecidableEq R]

def checkEv (q0 : List R) (pop : Nat) (a : LAcc R) : LEv R → Bool
  | .submit _ => true
  | .start j recv =>
    decide (j < a.closedOver) ||
      (match recv with
       | some l => decide (l.length = pop) && a.running.all (fun x => l.all (fun r => !x.2.contains r))
       | none => false)
  | .endRun _ => true
  | .closed q => q.isPerm q0

def checkEvents (q0 : List R) (pop : Nat) : LAcc R → List (LEv R) → Bool
  | _, [] => true
  | a, e :: es => checkEv q0 pop a e && checkEvents q0 pop (nextL a e) es

def checkFinal (lg : Log R) (a : LAcc R) : Bool :=
  !lg.error && decide lg.returned.Nodup &&
  (List.range a.nsub).all (fun j => lg.returned.contains j || decide (j < a.closedOver)) &&
  lg.finalQueue.isPerm lg.q0 &&
  a.recvOf.all (fun x => match lg.metas[x.1]? with
    | some (some m) => m == x.2
    | _ => true)

/-- the checker the driver runs on the implementation's log -/
def checkLog (lg : Log R) : Bool :=
  checkEvents lg.q0 lg.pop LAcc.init lg.events && checkFinal lg (accAfter LAcc.init lg.events)

/-- index of the first event that violates the property, with the accumulator before it -/
def firstBadEv (q0 : List R) (pop : Nat) : LAcc R → Nat → List (LEv R) → Option (Nat × LEv R)
  | _, _, [] => none
  | a, i, e :: es => if checkEv q0 pop a e then firstBadEv q0 pop (nextL a e) (i + 1) es else some (i, e)

end decide

/-! ### the log of a model run -/

/-- a script of the model: ordinary transitions, and `close()` = cancellation of every task that is
not done, the cancelled tasks running in `order` -/
inductive QAct
  | step (t : QStep)
  | close (order : List Nat)
  deriving DecidableEq, Repr

def runAct (s : QState R) : QAct → Option (QState R)
  | .step (.cancel _) => none                      -- cancellations happen through `close`
  | .step t => step s t
  | .close order =>
    if (List.range s.jobs.length).all (fun j => order.contains j) then some (cancelAll s order) else none

def phaseAt (s : QState R) (k : Nat) : Option (Phase R) := (s.jobs[k]?).map (·.phase)

/-- what the run-function of job `j` received (its log line) -/
def recvAt (s : QState R) (j : Nat) : Option (List R) :=
  match phaseAt s j with
  | some (.running _ recv) => recv
  | _ => none

/-- the log lines an action leaves (`s'` = the state after it) -/
def evOf (s' : QState R) : QAct → List (LEv R)
  | .step (.submit n) => [.submit n]
  | .step (.start j) => [.start j (recvAt s' j)]
  | .step (.endRun j) => [.endRun j]
  | .close _ => [.closed s'.queue]
  | _ => []

def runScript : QState R → List QAct → Option (QState R × List (LEv R))
  | s, [] => some (s, [])
  | s, a :: as =>
    match runAct s a with
    | none => none
    | some s' =>
      match runScript s' as with
      | none => none
      | some (s'', evs) => some (s'', evOf s' a ++ evs)

def metaOf : Phase R → Option (List R)
  | .finished _ md => some md
  | _ => none

def isFinishedPhase : Phase R → Bool
  | .finished _ _ => true
  | _ => false

/-- the end-of-session part of the log, read off the final state -/
def logOf (q0 : List R) (pop : Nat) (s : QState R) (evs : List (LEv R)) : Log R :=
  { q0 := q0, pop := pop, events := evs,
    metas := s.jobs.map (fun x => metaOf x.phase),
    returned := (List.range s.jobs.length).filter (fun j => match phaseAt s j with
      | some ph => isFinishedPhase ph
      | none => false),
    finalQueue := s.queue, error := false }

end DH.Queued
