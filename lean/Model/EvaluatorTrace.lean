import Model.Evaluator

/-!
# Observable traces of an `Evaluator` session and the property C01 stated over them

A *trace* is what a caller of the API can see, call by call: the call, what it returned (the job
records of a gather, the ids of the rows a dump appended, or the kind of exception), the two
counters, and `jobs_done` afterwards.  No environment input, no private state.

`TraceSpec` is the property C01 as a proposition over such a trace; `checkTrace` decides it
(`Props/C01.lean`: `C01_checker`), and every trace the model produces under the environment contract
satisfies it (`C01_model_traces_ok`).  The harness sends the trace observed on the REAL evaluator
to the driver, which evaluates `checkTrace` on it.  Imports only the model (core Lean).
-/

namespace DH.Evaluator

/-- kinds of exception a caller can observe -/
inductive EKind
  | noLoop | noJobs | other
  deriving DecidableEq, Repr

inductive TOp (C : Type)
  | submit (cfgs : List C)
  | gather (all : Bool) (k : Nat)
  | close
  | dump
  deriving DecidableEq, Repr

inductive TRes (C O : Type)
  | unit
  | jobs (l : List (JobRec C O))
  | rows (ids : List Nat)
  | error (e : EKind)
  deriving DecidableEq, Repr

structure TStep (C O : Type) where
  op : TOp C
  res : TRes C O
  numSubmitted : Nat
  numGathered : Nat
  jobsDone : List (JobRec C O)
  deriving DecidableEq, Repr

/-- what the observer has learnt so far -/
structure Acc (C : Type) where
  /-- every configuration submitted so far: job `k` must carry `cfgs[k]` -/
  cfgs : List C
  /-- every job handed back by a gather or recorded by close, and how -/
  delivered : List (Nat × Via)
  /-- ids in `jobs_done` (awaiting a dump) -/
  pending : List Nat
  deriving Repr

variable {C O : Type}

def Acc.init : Acc C := { cfgs := [], delivered := [], pending := [] }

/-- submitted and not yet accounted for -/
def Acc.inflight (a : Acc C) : Nat := a.cfgs.length - a.delivered.length

/-! ### the clauses -/

/-- never twice / never both, and the configuration it was submitted with -/
def FreshPayload (a : Acc C) (j : JobRec C O) : Prop :=
  j.id ∉ a.delivered.map (·.1) ∧ a.cfgs[j.id]? = some j.cfg

/-- a job handed back by a gather: fresh, `DONE`, the run-function's value -/
def GatheredOk (p : Params C O) (a : Acc C) (j : JobRec C O) : Prop :=
  FreshPayload a j ∧ j.status = .done ∧ j.out = some (p.f j.cfg)

/-- a job recorded by close: fresh, `DONE` with its result or `CANCELLED` -/
def ClosedOk (p : Params C O) (a : Acc C) (j : JobRec C O) : Prop :=
  FreshPayload a j ∧
    ((j.status = .done ∧ j.out = some (p.f j.cfg)) ∨
     (j.status = .cancelled ∧ j.out = if p.hpo then some p.cancelOut else none))

/-- batch size: at least `min(k, running)`; `ALL` leaves nothing running -/
def BatchOk (a : Acc C) (all : Bool) (k n : Nat) : Prop :=
  min (if all then a.inflight else k) a.inflight ≤ n ∧ (all = true → n = a.inflight)

def nextAcc (a : Acc C) (st : TStep C O) : Acc C :=
  match st.op, st.res with
  | .submit cfgs, _ => { a with cfgs := a.cfgs ++ cfgs }
  | .gather _ _, .jobs js =>
    { a with delivered := a.delivered ++ js.map (fun j => (j.id, Via.gather)),
             pending := a.pending ++ js.map (·.id) }
  | .close, .unit =>
    let new := st.jobsDone.drop a.pending.length
    { a with delivered := a.delivered ++ new.map (fun j => (j.id, Via.close)),
             pending := a.pending ++ new.map (·.id) }
  | .dump, .rows ids => if ids = [] then a else { a with pending := [] }
  | _, _ => a

/-- the call-specific part of the property -/
def CallOk (p : Params C O) (a : Acc C) (st : TStep C O) : Prop :=
  match st.op, st.res with
  | .submit _, .unit => st.jobsDone.map (·.id) = a.pending
  | .gather all k, .jobs js =>
    (js.map (·.id)).Nodup ∧ (∀ j ∈ js, GatheredOk p a j) ∧ BatchOk a all k js.length ∧
      st.jobsDone.map (·.id) = a.pending ++ js.map (·.id)
  | .gather all k, .error e =>
    -- the only legitimate refusal: a sized gather while nothing is in flight
    e ≠ .other ∧ all = false ∧ k ≠ 0 ∧ a.inflight = 0 ∧ st.jobsDone.map (·.id) = a.pending
  | .close, .unit =>
    let new := st.jobsDone.drop a.pending.length
    (st.jobsDone.take a.pending.length).map (·.id) = a.pending ∧
      (new.map (·.id)).Nodup ∧ (∀ j ∈ new, ClosedOk p a j) ∧
      -- nothing lost: everything that was in flight is recorded
      new.length = a.inflight
  | .dump, .rows ids =>
    (ids = [] ∧ st.jobsDone.map (·.id) = a.pending) ∨ (ids = a.pending ∧ st.jobsDone = [])
  | _, _ => False

/-- the counters equal the true counts -/
def CountersOk (a : Acc C) (st : TStep C O) : Prop :=
  st.numSubmitted = (nextAcc a st).cfgs.length ∧ st.numGathered = (nextAcc a st).delivered.length

def StepOk (p : Params C O) (a : Acc C) (st : TStep C O) : Prop := CallOk p a st ∧ CountersOk a st

/-- **the property C01 over an observable trace** -/
def TraceSpecFrom (p : Params C O) : Acc C → List (TStep C O) → Prop
  | _, [] => True
  | a, st :: rest => StepOk p a st ∧ TraceSpecFrom p (nextAcc a st) rest

def TraceSpec (p : Params C O) (t : List (TStep C O)) : Prop := TraceSpecFrom p Acc.init t

/-! ### the decision procedure -/

section decide
variable [DecidableEq C] [DecidableEq O]

instance (a : Acc C) (j : JobRec C O) : Decidable (FreshPayload a j) := by
  unfold FreshPayload; infer_instance
instance (p : Params C O) (a : Acc C) (j : JobRec C O) : Decidable (GatheredOk p a j) := by
  unfold GatheredOk; infer_instance
instance (p : Params C O) (a : Acc C) (j : JobRec C O) : Decidable (ClosedOk p a j) := by
  unfold ClosedOk; infer_instance
instance (a : Acc C) (all : Bool) (k n : Nat) : Decidable (BatchOk a all k n) := by
  unfold BatchOk; infer_instance
instance (p : Params C O) (a : Acc C) (st : TStep C O) : Decidable (CallOk p a st) := by
  unfold CallOk; split <;> infer_instance
instance (a : Acc C) (st : TStep C O) : Decidable (CountersOk a st) := by
  unfold CountersOk; infer_instance
instance (p : Params C O) (a : Acc C) (st : TStep C O) : Decidable (StepOk p a st) := by
  unfold StepOk; infer_instance

/-- the checker the driver runs on the implementation's trace -/
def checkTraceFrom (p : Params C O) (a : Acc C) : List (TStep C O) → Bool
  | [] => true
  | st :: rest => decide (StepOk p a st) && checkTraceFrom p (nextAcc a st) rest

def checkTrace (p : Params C O) (t : List (TStep C O)) : Bool := checkTraceFrom p Acc.init t

/-- index of the first call that violates the property, with the accumulator before it -/
def firstBad (p : Params C O) : Acc C → Nat → List (TStep C O) → Option (Nat × Acc C × TStep C O)
  | _, _, [] => none
  | a, i, st :: rest => if decide (StepOk p a st) then firstBad p (nextAcc a st) (i + 1) rest else some (i, a, st)

end decide

/-! ### the trace of a model run -/

def eraseOp : Op C → TOp C
  | .submit cfgs => .submit cfgs
  | .gather all k _ _ => .gather all k
  | .close _ => .close
  | .dump _ => .dump

def toRes : Out C O → TRes C O
  | .unit => .unit
  | .jobs l => .jobs l
  | .rows l => .rows (l.map (·.id))
  | .error .noLoop => .error .noLoop
  | .error .noJobs => .error .noJobs
  | .error _ => .error .other

/-- what an observer sees of one model step -/
def obsStep (p : Params C O) (s : Ev C O) (op : Op C) : TStep C O :=
  let r := step p s op
  { op := eraseOp op, res := toRes r.2, numSubmitted := numSubmitted r.1, numGathered := numGathered r.1,
    jobsDone := lookupAll r.1.jobs r.1.jobsDone }

def traceOf (p : Params C O) : Ev C O → List (Op C) → List (TStep C O)
  | _, [] => []
  | s, op :: ops => obsStep p s op :: traceOf p (step p s op).1 ops

end DH.Evaluator
