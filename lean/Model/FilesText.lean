import Model.Files
import Model.Csv

/-!
# The bytes of the result files (property C15): the text layer under `Model/Files.lean`

`Model/Files.lean` treats a line of `results.csv` as an opaque complete line tagged with its job.
What is on disk is text, and what a reader (`csv.reader`, `pandas.read_csv`, hence
`CBO.fit_surrogate`) recovers from it depends on how the WRITERS quoted the cells:

* the evaluator (`Evaluator._write_rows_to_csv`): `csv.DictWriter` with the default `excel` dialect —
  `Csv.renderLine`: a cell is quoted iff it contains `,`, `"`, `\r` or `\n`; records end with `\r\n`;
* the end-of-search rewrite (`Search.extend_results_with_pareto_efficient_indicator`):
  `DataFrame.to_csv(…, lineterminator=lt)`, which drives the same `csv.writer` with the line
  terminator `lt`.  CPython 3.12 (`_csv.c: join_append_data`) quotes a cell iff it contains the
  delimiter, the quote character or a character OF THE LINE TERMINATOR: with pandas' default `lt = "\n"`
  a cell holding a bare carriage return is written unquoted and every reader ends the record there.
  The repaired code passes `lt = "\r\n"` (`crlf`); `lf` is kept as the switch of that repair.

A *concrete line* (`CLine`) is an abstract line of the file model together with its cells (any
characters).  `bytesOf lt` renders a file: lines with the `pareto_efficient` cell (`ext`) were
written by the rewrite, the others by the evaluator.  `abstract` is the way back — the reader state
machine of `Model/Csv.lean`, then each record classified against the header record — and is what the
check runs on the bytes found on disk; `cellsOk` compares the cells read back with what the
run-functions logged.

Core Lean only (imports two other model files).
-/

namespace DH.Files
open DH.Csv

/-! ## writer dialects -/

def crlf : Text := ['\r', '\n']
def lf : Text := ['\n']

/-- `csv.writer` with line terminator `lt`: does this character force quotes around its cell? -/
def isSpecialLt (lt : Text) (c : Char) : Bool := c == ',' || c == '"' || lt.contains c

def quoteCellLt (lt : Text) (s : Text) : Text :=
  if s.any (isSpecialLt lt) then '"' :: (escape s ++ ['"']) else s

def renderFieldsLt (lt : Text) : List Text → Text
  | [] => []
  | [f] => quoteCellLt lt f
  | f :: g :: r => quoteCellLt lt f ++ ',' :: renderFieldsLt lt (g :: r)

/-- `writer.writerow(cells)` of a writer whose dialect has the line terminator `lt` -/
def renderLineLt (lt : Text) (cells : List Text) : Text :=
  (match cells with
   | [[]] => ['"', '"']
   | _ => renderFieldsLt lt cells) ++ lt

/-! ## concrete files -/

/-- a line of the file model together with its cells -/
structure CLine where
  line : Line
  cells : List Text
  deriving DecidableEq, Repr

/-- was the line written by the end-of-search rewrite (`DataFrame.to_csv`)?  Exactly the lines that
carry the `pareto_efficient` cell; the others were written by the evaluator. -/
def Line.rewritten : Line → Bool
  | .header e => e
  | .row _ e => e
  | .torn _ => false

def lineText (lt : Text) (l : CLine) : Text :=
  if l.line.rewritten then renderLineLt lt l.cells else renderLine l.cells

/-- the bytes of a results file (`lt` = line terminator handed to `DataFrame.to_csv`) -/
def bytesOf (lt : Text) (c : List CLine) : Text := c.flatMap (lineText lt)

/-! ## reading the bytes back -/

def jobIdName : Text := ['j', 'o', 'b', '_', 'i', 'd']
def paretoName : Text :=
  ['p', 'a', 'r', 'e', 't', 'o', '_', 'e', 'f', 'f', 'i', 'c', 'i', 'e', 'n', 't']

def digit? (c : Char) : Option Nat :=
  if 48 ≤ c.toNat ∧ c.toNat ≤ 57 then some (c.toNat - 48) else none

def natOfDigits : Nat → Text → Option Nat
  | n, [] => some n
  | n, c :: r =>
    match digit? c with
    | none => none
    | some d => natOfDigits (n * 10 + d) r

/-- a cell that is a plain decimal number (how `job_id` is written) -/
def natOfText : Text → Option Nat
  | [] => none
  | t => natOfDigits 0 t

/-- position of the first column of that name -/
def colIdx (name : Text) : List Text → Option Nat
  | [] => none
  | c :: cs => if c = name then some 0 else (colIdx name cs).map (· + 1)

/-- the record's last cell is the `pareto_efficient` column name -/
def isExtRec (r : List Text) : Bool := r.getLast? == some paretoName

def idOfRec (jc : Nat) (r : List Text) : Option Nat := (r[jc]?).bind natOfText

/-- one record below a header of `hlen` cells (`hext`: with the `pareto_efficient` column, `jc`:
position of `job_id`); `complete = false`: the text ended inside this record -/
def classify (sid hlen : Nat) (hext : Bool) (jc : Nat) (complete : Bool) (r : List Text) : Line :=
  if r.contains jobIdName then .header (isExtRec r)
  else match idOfRec jc r with
    | none => .torn ⟨sid, 0⟩
    | some id =>
      if !complete then .torn ⟨sid, id⟩
      else if r.length == hlen then .row ⟨sid, id⟩ hext
      else if hext && r.length + 1 == hlen then .row ⟨sid, id⟩ false   -- appended after a rewrite
      else if !hext && r.length == hlen + 1 then .row ⟨sid, id⟩ true    -- more cells than the header
      else .torn ⟨sid, id⟩

def classifyRows (sid hlen : Nat) (hext : Bool) (jc : Nat) (ended : Bool) : List (List Text) → Content
  | [] => []
  | [r] => [classify sid hlen hext jc ended r]
  | r :: rs => classify sid hlen hext jc true r :: classifyRows sid hlen hext jc ended rs

/-- records → lines of the file model (`ended`: the text ends between two records) -/
def abstractRecs (sid : Nat) (ended : Bool) : List (List Text) → Content
  | [] => []
  | h :: rest =>
    match colIdx jobIdName h with
    | none => (h :: rest).map (fun _ => Line.torn ⟨sid, 0⟩)
    | some jc =>
      if rest.isEmpty && !ended then [.torn ⟨sid, 0⟩]
      else .header (isExtRec h) :: classifyRows sid h.length (isExtRec h) jc ended rest

/-- does the reader stand between two records at the end of the text?  (A character appended to
the text then starts a record of its own; inside a record — after a delimiter, inside a cell, inside
or right after quotes — it joins the last record.) -/
def endsBetweenRecords (t : Text) : Bool :=
  (parseFile (t ++ ['x'])).length == (parseFile t).length + 1

/-- the records of a text; blank lines are no records (`pandas.read_csv` skips them) -/
def records (t : Text) : List (List Text) := (parseFile t).filter (fun r => !r.isEmpty)

/-- bytes of a results file → content of the file model, `sid` = the search that wrote it -/
def abstract (sid : Nat) (t : Text) : Content := abstractRecs sid (endsBetweenRecords t) (records t)

/-! ## the cells of a row -/

/-- what the run-function's own log says about one evaluation of the search that owns the file:
its job id and the text of some of its cells, by column name -/
structure Expect where
  id : Nat
  cells : List (Text × Text)
  deriving DecidableEq, Repr

/-- the evaluation is shown by at most one record, and that record carries its cells -/
def expectOk (hdr : List Text) (jc : Nat) (rows : List (List Text)) (e : Expect) : Bool :=
  match rows.filter (fun r => idOfRec jc r == some e.id) with
  | [] => true
  | [r] => e.cells.all (fun p => lookupByName hdr r p.1 == some p.2)
  | _ => false

def cellsOkRecs (exp : List Expect) : List (List Text) → Bool
  | [] => true
  | hdr :: rows =>
    match colIdx jobIdName hdr with
    | none => true            -- not a table at all: `visibleOk` says so
    | some jc => exp.all (expectOk hdr jc rows)

def cellsOk (t : Text) (exp : List Expect) : Bool := cellsOkRecs exp (records t)

/-- the check run on the bytes found on disk: the table they read back to is absent-or-well-formed,
truthful and complete (`visibleOk`), and its rows carry the cells the run-functions logged -/
def bytesOk (sid : Nat) (t : Option Text) (done dumped : List Job) (exp : List Expect) : Bool :=
  visibleOk (t.map (abstract sid)) done dumped &&
    (match t with
     | none => true
     | some t => cellsOk t exp)

end DH.Files
