import Model.Search

/-!
# Several search objects on one evaluator, their results files and the working directory

`Model/Search.lean` counts the rows "of results.csv" with one number (`Ev.rows`).  This file puts
the files themselves, the dump state of the evaluator and the constructor of `Search` into the
model, so that a history may contain **several search objects** (constructed on the same evaluator
at any time — all of them up-front, or each one when the previous one is done —, in the same or in
different log directories, given as absolute or relative paths) and **changes of the process working
directory** (between calls, or by the run-function during a call).

Code: `deephyper/hpo/_search.py` (`Search.__init__`, `search`, `dump_jobs_done_to_csv`) and
`deephyper/evaluator/_evaluator.py` (`dump_jobs_done_to_csv`, `_write_rows_to_csv`,
`rename_existing_file`).

```
Search.__init__(problem, evaluator, log_dir="."):
    self._log_dir = os.path.abspath(log_dir)                  # resolved ONCE, against the cwd of now
    pathlib.Path(log_dir).mkdir(parents=True, exist_ok=True)
    self._evaluator = evaluator; evaluator.search = self      # the evaluator now belongs to this object
    self._path_results = join(self._log_dir, "results.csv")
    if exists(self._path_results): rename_existing_file(...)  # results_<time>.csv, never read again
    evaluator._forget_dump_state(self._path_results)          # THIS file starts again with the header

Search.dump_jobs_done_to_csv():  evaluator.dump_jobs_done_to_csv(log_dir=self._log_dir)
Evaluator.dump_jobs_done_to_csv(log_dir):
    path = join(log_dir, "results.csv")
    if path != self._path_dumped:                             # repair "dump state per file": the state
        _dump_states[_path_dumped] = (_start_dumping, _columns_dumped)      # of the previous file is kept,
        _start_dumping, _columns_dumped = _dump_states.pop(path, (False, None))   # the one of this file restored
        _path_dumped = path
    nothing more if jobs_done is empty, else _write_rows_to_csv(path, rows); jobs_done = []
_write_rows_to_csv(path, rows):
    if _start_dumping: open(path, "a"); writerows(rows)       # creates a header-less file if path is gone
    else: tmp := header + rows; if exists(path): rename_existing_file(path); os.replace(tmp, path)
          _start_dumping = True
search(): ...; return None if not exists(_path_results) else pd.read_csv(_path_results)
```

Abstractions: a directory is the list of its path components from the root (`os.path.abspath`
without `..` and symbolic links); of a results file only "was the header line written" and the number
of data lines are kept (the text layer is C15's, the header logic for failed objectives C04's: here
every dumped job has a numerical objective, so the columns are known at the first dump);
`pd.read_csv` takes the first line as header whatever it is: a header-less file yields a table with
one row less and data values as column names (`wellFormed = false`).  Files renamed away are never
read again and are dropped.  Every search object uses the counters model of `Model/Search.lean` for
its calls (`searchCallD` is `searchCall` with every `dump` also writing to the disk; projection
theorems in `Proofs/SearchObjects.lean`).

`Cfg.initResets = false` is the code without the reset of the dump state in `Search.__init__` (the
behaviour before the repair 72663f8 `fix: a search always starts its results file with the header
when its evaluator was used before`), `Cfg.perFile = false` the code with ONE dump state for all
the files (the behaviour before the repair `fix: the evaluator keeps the state of the dumping per
results file`, found by this check: search objects constructed up-front on one evaluator and run
one after the other); both are kept for regression witnesses.  The model keeps the dump state as a
map from results file to "header written" (`Disk.started`): `_start_dumping` is its value at
`_path_dumped`, `_dump_states` the rest of it.

Discipline (history variable `Obj.valid`): a directory holds the results of one search at a time —
a search object is over as soon as another one is constructed or called in its directory.  Search
objects with different directories may use the evaluator in any order, also in turns.  The model
says what the code does in every case; the theorems speak about calls on objects that are not over.
-/

namespace DH.SearchObjects
open DH.Search

/-- an absolute directory: its components from the root -/
abbrev Path := List Nat

/-- the `log_dir` argument of `Search.__init__`; `rel []` is `"."`, the default -/
inductive LogDir where
  | abs (p : Path)
  | rel (p : Path)
  deriving Repr, DecidableEq

/-- `os.path.abspath(log_dir)` in the working directory `cwd` -/
def resolve (cwd : Path) : LogDir → Path
  | .abs p => p
  | .rel p => cwd ++ p

/-- `results.csv` of one directory -/
structure File where
  header : Bool     -- the first line is the header line
  lines : Nat       -- lines after it (header-less file: all lines)
  deriving Repr, DecidableEq

/-- the `results.csv` of every directory (`none` = no such file) -/
abbrev FS := Path → Option File

def fsEmpty : FS := fun _ => none

def fsSet (fs : FS) (p : Path) (v : Option File) : FS := fun q => if q = p then v else fs q

/-- the table `pd.read_csv` makes of a file -/
structure Table where
  rows : Nat
  wellFormed : Bool      -- the column names are the declared ones (the header line was there)
  deriving Repr, DecidableEq

/-- `pd.read_csv`: the first line is the header, whatever it is -/
def readCsv (f : File) : Table :=
  if f.header then { rows := f.lines, wellFormed := true }
  else { rows := f.lines - 1, wellFormed := false }

structure Cfg where
  initResets : Bool := true   -- `Search.__init__` resets the dump state (of its results file)
  perFile : Bool := true      -- the dump state is kept per results file
  deriving Repr, DecidableEq

/-- what a dump reads and writes: per results file "the header line was written by this evaluator"
(`_start_dumping` / `_dump_states`) and the files -/
structure Disk where
  started : Path → Bool
  fs : FS

/-- the dump state of file `p` becomes `v` (without the per-file repair there is one state for all) -/
def setStarted (cfg : Cfg) (st : Path → Bool) (p : Path) (v : Bool) : Path → Bool :=
  if cfg.perFile then fun q => if q = p then v else st q else fun _ => v

/-- `Evaluator._write_rows_to_csv(path, rows)` with `k ≥ 1` rows -/
def writeRows (cfg : Cfg) (d : Disk) (p : Path) (k : Nat) : Disk :=
  if d.started p then
    { d with fs := fsSet d.fs p (match d.fs p with
        | some f => some { f with lines := f.lines + k }
        | none => some { header := false, lines := k }) }
  else
    { started := setStarted cfg d.started p true,
      fs := fsSet d.fs p (some { header := true, lines := k }) }

/-- `Evaluator.dump_jobs_done_to_csv(log_dir)` with `k` jobs in `jobs_done` -/
def dumpTo (cfg : Cfg) (d : Disk) (p : Path) (k : Nat) : Disk :=
  if k = 0 then d else writeRows cfg d p k

/-! ### `Search.search` with the dumps going to the disk (same branches as `Model/Search.lean`) -/

/-- the `while` loop of `_search`; every `dump` also writes the pending jobs to `p/results.csv` -/
def loopD (cfg : Cfg) (strict : Bool) (target : Int) (p : Path) :
    Ev → Disk → Nat → List Step → (Ev × Stop) × Disk
  | s, d, nAsk, env =>
    if target < 0 ∨ numEvals strict s < target then
      let s0 := { s with asks := s.asks ++ [nAsk] }
      let sub := submit s0 nAsk
      if sub.2 then ((sub.1, .cap), d)
      else
        match env with
        | [] => ((sub.1, .envExhausted), d)
        | st :: rest =>
          let ga := gatherBatch1 sub.1 st.g
          match ga.2 with
          | .noJobs => ((ga.1, .noJobs), d)
          | .badEnv => ((ga.1, .badEnv), d)
          | .ok =>
            let s3 := dump ga.1
            let d3 := dumpTo cfg d p ga.1.pending
            if s3.timeoutSet ∧ st.expired then ((s3, .timeout), d3)
            else loopD cfg strict target p s3 d3 st.g rest
    else ((s, .budget), d)

/-- "Collect remaining jobs" -/
def drainD (cfg : Cfg) (p : Path) (s : Ev) (d : Disk) : (Ev × Bool) × Disk :=
  if numSubmitted s > numGathered s then
    let g := gatherAll s
    let s1 := dump g
    let d1 := dumpTo cfg d p g.pending
    if numSubmitted s1 > numGathered s1 then ((s1, true), d1) else ((s1, false), d1)
  else ((s, false), d)

/-- `Search.search(max_evals, timeout, max_evals_strict)` of a search object whose results file is
in directory `p` (resolved when the object was constructed) -/
def searchCallD (fx : Fixes) (cfg : Cfg) (p : Path) (s : Ev) (d : Disk) (c : Call) (env : List Step) :
    (Ev × Out) × Disk :=
  if (match c.timeout with | some t => decide (t ≤ 0) | none => false) then
    ((s, mkOut s s .badTimeout false), d)
  else
    let s1 := if c.strict then setMax fx s c.maxEvals
              else if fx.resetCap then { s with maxSub := -1 } else s
    let s2 := match c.timeout with
      | some _ => { s1 with timeoutSet := true }
      | none => if fx.clearTimeout then { s1 with timeoutSet := false } else s1
    let target := if c.maxEvals < 0 then c.maxEvals else c.maxEvals + numEvals c.strict s2
    let lp := loopD cfg c.strict target p s2 d s2.W env
    match lp.1.2 with
    | .noJobs => ((lp.1.1, mkOut s lp.1.1 .noJobs false), lp.2)
    | .badEnv => ((lp.1.1, mkOut s lp.1.1 .badEnv false), lp.2)
    | .envExhausted => ((lp.1.1, mkOut s lp.1.1 .envExhausted false), lp.2)
    | stop =>
      let dr := drainD cfg p lp.1.1 lp.2
      if dr.1.2 then ((dr.1.1, mkOut s dr.1.1 .hang false), dr.2)
      else
        let c5 := close dr.1.1
        let s5 := dump c5
        ((s5, mkOut s s5 stop true), dumpTo cfg dr.2 p c5.pending)

/-! ### the world: one evaluator, the search objects constructed on it, the files, the cwd -/

/-- a search object -/
structure Obj where
  dir : Path             -- `os.path.abspath(log_dir)` at construction
  own : Nat := 0         -- history variable: evaluations performed by the calls on this object
  valid : Bool := true   -- history variable: not over (see the discipline in the header)
  deriving Repr, DecidableEq

/-- another search object is constructed or called in directory `dir` -/
def Obj.overBy (b : Obj) (dir : Path) : Obj :=
  if b.dir = dir then { b with valid := false } else b

structure World where
  ev : Ev                     -- budget state of the evaluator (survives from one search object to the next)
  started : Path → Bool := fun _ => false   -- dump state per results file
  fs : FS := fsEmpty
  cwd : Path := []
  nobj : Nat := 0             -- search objects constructed so far: numbers `0 .. nobj-1`
  objs : Nat → Option Obj := fun _ => none

/-- events of a history -/
inductive Op where
  /-- `Search(problem, evaluator, log_dir=ld)` on the evaluator: object number `nobj` -/
  | new (ld : LogDir)
  /-- `os.chdir(p)` between two calls -/
  | chdir (p : Path)
  /-- `search(...)` on search object number `o`; `cwdAfter` = the working directory in which a
  run-function left the process (`none`: unchanged) -/
  | call (o : Nat) (c : Call) (env : List Step) (cwdAfter : Option Path)

/-- the call returned a table (or `None`) -/
def returned (o : Out) : Bool :=
  match o.stop with
  | .budget | .cap | .timeout => true
  | _ => false

/-- result of a call: the counters-level result (its `table` counts the rows the evaluator wrote for
*all* its search objects and is not used here) and the table read from the object's own file -/
structure OutW where
  out : Out
  table : Option Table
  deriving Repr, DecidableEq

def stepW (cfg : Cfg) (w : World) : Op → World × Option OutW
  | .new ld =>
    let dir := resolve w.cwd ld
    let fs := if (w.fs dir).isSome then fsSet w.fs dir none else w.fs   -- rename_existing_file
    ({ w with fs := fs,
              started := if cfg.initResets then setStarted cfg w.started dir false else w.started,
              nobj := w.nobj + 1,
              objs := fun j => if j = w.nobj then some { dir := dir }
                               else (w.objs j).map (·.overBy dir) }, none)
  | .chdir p => ({ w with cwd := p }, none)
  | .call o c env cwdAfter =>
    match w.objs o with
    | none => (w, none)          -- no such search object: nothing to call
    | some ob =>
      let r := searchCallD {} cfg ob.dir w.ev { started := w.started, fs := w.fs } c env
      ({ w with ev := r.1.1, started := r.2.started, fs := r.2.fs,
                cwd := match cwdAfter with | some q => q | none => w.cwd,
                objs := fun j => if j = o then some { ob with own := ob.own + r.1.2.evals }
                                 else (w.objs j).map (·.overBy ob.dir) },
       some { out := r.1.2,
              table := if returned r.1.2 then (r.2.fs ob.dir).map readCsv else none })

def runOps (cfg : Cfg) : World → List Op → World × List (Option OutW)
  | w, [] => (w, [])
  | w, op :: rest =>
    let r := stepW cfg w op
    let rr := runOps cfg r.1 rest
    (rr.1, r.2 :: rr.2)

/-- a fresh evaluator with `W` workers in a process whose working directory is `cwd`; `fs` = the
results files that exist already -/
def initW (W : Nat) (fs : FS) (cwd : Path) : World := { ev := init W, fs := fs, cwd := cwd }

/-! ### several evaluators sharing the file system and the working directory (executable only:
used by the driver to replay scenarios in which search objects of different evaluators use the same
log directory one after the other; the theorems are about `runOps`) -/

structure Own where
  ev : Ev
  started : Path → Bool := fun _ => false
  nobj : Nat := 0
  objs : Nat → Option Obj := fun _ => none

structure MWorld where
  fs : FS := fsEmpty
  cwd : Path := []
  owns : List Own

/-- event `op` on evaluator number `e` (object numbers are per evaluator) -/
def stepM (cfg : Cfg) (m : MWorld) (e : Nat) (op : Op) : Option (MWorld × Option OutW) :=
  match m.owns[e]? with
  | none => none
  | some o =>
    let r := stepW cfg { ev := o.ev, started := o.started, fs := m.fs, cwd := m.cwd,
                         nobj := o.nobj, objs := o.objs } op
    some ({ fs := r.1.fs, cwd := r.1.cwd,
            owns := m.owns.set e { ev := r.1.ev, started := r.1.started,
                                   nobj := r.1.nobj, objs := r.1.objs } }, r.2)

def runM (cfg : Cfg) : MWorld → List (Nat × Op) → Option (MWorld × List (Option OutW))
  | m, [] => some (m, [])
  | m, (e, op) :: rest =>
    match stepM cfg m e op with
    | none => none
    | some r =>
      match runM cfg r.1 rest with
      | none => none
      | some rr => some (rr.1, r.2 :: rr.2)

end DH.SearchObjects
