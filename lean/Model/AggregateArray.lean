import Model.Aggregate

/-!
# The member arrays as the aggregators receive them

`Model/Aggregate.lean` starts from *cells* (`none` = masked).  This file models the stage of
`aggregate()` that produces them from the member **objects**:

    xp = np
    if all(isinstance(pred, np.ma.MaskedArray) for pred in y):   # MixedNormal: every `loc` and every `scale`
        xp = np.ma
    stacked = xp.stack(y, axis=0)

A member (flattened) is described by what the code can see of it: its Python class (`ndarray` or
`MaskedArray`), how its mask is stored (`np.ma.nomask` or a mask array), its dtype and the values it
stores — *all* of them, also those under the mask.  The stored values are the exact numbers: every
dtype the harness generates holds its values exactly (whole numbers in integer / bool arrays, dyadic
rationals in float16/32/64 arrays), so the dtype is a tag.

* `np.ma.stack` keeps the mask of every member (a member with `nomask` has no masked entry);
* `np.stack` returns the stored data of every member: masks are dropped (a list mixing plain and
  masked members is therefore aggregated without masks — such lists are outside the property and are
  not generated; `stackCells_mixed_drops_masks` is the witness).

What a member *means* is `Arr.cells`: the numbers at the places that are not masked.  The theorems
(`Props/C19.lean`, `C19_member_representation`) say that the stacked cells — hence every output of every
aggregator — depend on the members only through `Arr.cells`: not on the dtype, not on the way the mask
is stored, not on the data under the mask.  Core Lean only.
-/

namespace DH.Aggregate

/-- how the mask of a `MaskedArray` is stored -/
inductive MaskRep where
  /-- `np.ma.nomask`: the array was built without a mask -/
  | nomask
  /-- a boolean mask array (`true` = masked) -/
  | bits (bs : List Bool)
deriving Repr, DecidableEq

/-- dtype of a member array (a tag: the stored values are exact) -/
inductive DType where
  | bool
  | int (bits : Nat)
  | uint (bits : Nat)
  | float (bits : Nat)
deriving Repr, DecidableEq

/-- a member array, flattened -/
structure Arr where
  /-- `isinstance(pred, np.ma.MaskedArray)` -/
  ma : Bool
  /-- the stored mask (meaningful for a `MaskedArray` only) -/
  mask : MaskRep
  dtype : DType
  /-- the stored values of all entries, also of those under the mask -/
  data : List Rat
deriving Repr, DecidableEq

/-- the entries of `vs` with the mask `bs` applied (entries without a mask bit are present) -/
def maskCells : List Bool → List Rat → List Cell
  | _, [] => []
  | [], v :: vs => some v :: maskCells [] vs
  | b :: bs, v :: vs => (if b then none else some v) :: maskCells bs vs

/-- what the member means: the numbers at the places that are not masked -/
def Arr.cells (a : Arr) : List Cell :=
  match a.ma, a.mask with
  | true, .bits bs => maskCells bs a.data
  | _, _ => a.data.map some

/-- `all(isinstance(pred, np.ma.MaskedArray) for pred in y)` -/
def useMa (ys : List Arr) : Bool := ys.all (·.ma)

/-- `xp.stack(y)`: one list of cells per member -/
def stackWith (ma : Bool) (ys : List Arr) : List (List Cell) :=
  if ma then ys.map Arr.cells else ys.map (fun a => a.data.map some)

/-- the stacked members of `MeanAggregator`, `MixedCategoricalAggregator`, `ModeAggregator` -/
def stackCells (ys : List Arr) : List (List Cell) := stackWith (useMa ys) ys

/-- `MixedNormalAggregator`: `np.ma` only when every `loc` and every `scale` is a `MaskedArray` -/
def stackNormal (locs scales : List Arr) : List (List Cell) × List (List Cell) :=
  (stackWith (useMa locs && useMa scales) locs, stackWith (useMa locs && useMa scales) scales)

/-- all members are `MaskedArray`s, or all are plain arrays -/
def Homogeneous (ys : List Arr) : Prop := (∀ a ∈ ys, a.ma = true) ∨ (∀ a ∈ ys, a.ma = false)

/-- cell `j` of every member (axis 0 of the stacked array at position `j`); a position outside a member's
array does not occur (`np.stack` requires equal shapes) -/
def column (stacked : List (List Cell)) (j : Nat) : List Cell := stacked.map (fun r => (r[j]?).join)

/-- the stacked array read cell by cell: for each of the `size` positions the members' cells -/
def columns (size : Nat) (stacked : List (List Cell)) : List (List Cell) :=
  (List.range size).map (column stacked)

/-- a row of `c` class probabilities of one member: present when none of its entries is masked
(categorical members are masked row-wise) -/
def rowOf (cs : List Cell) : Row := if cs.all Option.isSome then some (cs.filterMap id) else none

/-- row `r` (entries `r*c … r*c+c-1`) of every member -/
def rowColumn (c : Nat) (stacked : List (List Cell)) (r : Nat) : List Row :=
  stacked.map (fun m => rowOf ((m.drop (r * c)).take c))

def rowColumns (nrows c : Nat) (stacked : List (List Cell)) : List (List Row) :=
  (List.range nrows).map (rowColumn c stacked)

/-! ### the four aggregators on member arrays (`ws`: the checked weights, `Model/Aggregate.lean: checkArgs`) -/

def meanArr (ws : List Rat) (size : Nat) (ys : List Arr) : List MeanOut :=
  (columns size (stackCells ys)).map (meanAgg ws)

def normalArr (ws : List Rat) (size : Nat) (locs scales : List Arr) : List NormalOut :=
  ((columns size (stackNormal locs scales).1).zip (columns size (stackNormal locs scales).2)).map
    (fun p => mixedNormal ws p.1 p.2)

def catArr (c : Nat) (ws : List Rat) (nrows : Nat) (ys : List Arr) : List CatOut :=
  (rowColumns nrows c (stackCells ys)).map (mixedCategoricalConf c ws)

def modeArr (c : Nat) (ws : List Rat) (nrows : Nat) (ys : List Arr) : List ModeOut :=
  (rowColumns nrows c (stackCells ys)).map (modeAgg c ws)

/-! ### conversions a caller (or an aggregator) may apply to a member before it is stacked -/

/-- `a.astype(d)` / `np.asanyarray(a, dtype=d)`: the class and the mask are kept -/
def Arr.astype (d : DType) (a : Arr) : Arr := { a with dtype := d }

/-- `np.asarray(a, dtype=d)` / `np.array(a, dtype=d)`: a base `ndarray` of the stored data — the mask is gone -/
def Arr.asarray (d : DType) (a : Arr) : Arr := { ma := false, mask := .nomask, dtype := d, data := a.data }

/-- the same `MaskedArray` with its mask stored as an (all-`False` where it had none) mask array -/
def Arr.withMaskArray (a : Arr) : Arr :=
  match a.mask with
  | .nomask => { a with mask := .bits (a.data.map (fun _ => false)) }
  | .bits _ => a

/-- other values stored under the mask: `vs` replaces the data, entry by entry, where the entry is masked -/
def overwriteMasked : List Cell → List Rat → List Rat → List Rat
  | none :: cs, _ :: ds, v :: vs => v :: overwriteMasked cs ds vs
  | _ :: cs, d :: ds, _ :: vs => d :: overwriteMasked cs ds vs
  | _, ds, _ => ds

def Arr.scribbleUnderMask (vs : List Rat) (a : Arr) : Arr := { a with data := overwriteMasked a.cells a.data vs }

end DH.Aggregate
