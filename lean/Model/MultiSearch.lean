import Model.SharedStorage

/-!
# Several SEARCHES recorded in one storage object

Code: `deephyper/evaluator/storage/_memory_storage.py` — `MemoryStorage.create_new_search()` (one storage object holds
any number of searches `"0"`, `"1"`, …), `create_new_job(search_id)` (job ids `"<search>.<index>"`: the indices of
different searches overlap), `store_job_status(job_id, …)` / `load_job_status(job_id)` (the status channel
`Job.status` / `RunningJob.status`: addressed by the FULL id); `deephyper/evaluator/_evaluator.py` —
`Evaluator.__init__(storage=…, search_id=None)`: an evaluator created on an existing storage without `search_id` opens a
search of its own in it.

The storage object is the list of its searches (index = search id); search `s` is a `World` of
`Model/SharedStorage.lean` (its jobs — index = the part of the job id after the dot —, its run-functions, the evaluators
attached to it), so the job `"s.i"` is keyed by the pair `(s, i)`: `Store.job st s i`.  The searches share the clock of
the process.  Evaluator `k` of search `s` performing `a` is `wstep` on that search's world, entered at the current
instant; nothing else of the storage is passed to it.  Core Lean only.
-/

namespace DH.Timeout

/-- one storage object: the searches recorded in it and the clock they share -/
structure Store where
  now : Nat := 0
  searches : List World := []
  deriving Repr

/-- the record of job `"s.i"` (status, history of status writes, output, …) -/
def Store.job (st : Store) (s i : Nat) : Option Job :=
  (st.searches[s]?).bind (fun w => w.jobs[i]?)

/-- evaluator `x.2.1` of search `x.1` performs `x.2.2` (any operation of any evaluator: `timeout`, `submit`, `gather`,
`close`, `gather_other_jobs_done`, `search`), starting at the current instant; the clock moves with it -/
def sstep (st : Store) (x : Nat × Nat × Act) : Store :=
  match st.searches[x.1]? with
  | some w =>
    let w' := wstep { w with now := st.now } x.2
    { now := w'.now, searches := st.searches.set x.1 w' }
  | none => st

/-- any history of operations of any evaluators of any searches of the storage, in the order in which they are made -/
def srun (st : Store) : List (Nat × Nat × Act) → Store
  | [] => st
  | x :: rest => srun (sstep st x) rest

/-- a fresh storage in which `cfg.length` searches have been opened; search `s` has `cfg[s].1.length` evaluators attached
(evaluator `k` with `cfg[s].1[k]` workers), HPO jobs or not, and its own run-functions -/
def sinit (cfg : List (List Nat × Bool × List Spec)) : Store :=
  { searches := cfg.map (fun c => winit c.1 c.2.1 c.2.2) }

end DH.Timeout
