/-!
# Model of `deephyper/ensemble/selector/{_topk,_greedy}.py` and of the ordering step of
`EnsemblePredictor.predictions_from_predictors` (`deephyper/ensemble/_ensemble.py`)

Environment (explicit arguments, universally quantified in the theorems):

* `losses i`            the loss of candidate `i` alone (`self._evaluate(y, y_predictors[i])`),
* `order`               what `np.argsort(losses)` returned (contract `OrderOK`: a permutation of
                        `range n`, non-decreasing in loss) — `argsort` below is the stable sort that
                        NumPy's small-array path performs and satisfies the contract,
* `L0 init`             the loss of the starting ensemble (`aggregate([...])`, no weights),
* `L uc`                the loss of the ensemble with unique members/counts `uc`
                        (`np.unique(indices, return_counts=True)` → `aggregate(y_, counts/sum)`): an
                        **arbitrary** function of the multiset of chosen indices,
* `bags it`             the bootstrap subset drawn in iteration `it` (`bagging=True`).

The model describes the code **after** fix 14a of branch `fix-g10` (`np.nanargmin` on an
all-NaN list used to raise `ValueError: All-NaN slice encountered`; now the loop stops
when no candidate is eligible).  `Res.allNaN` is kept as the pre-fix outcome
(`greedyLoopPre`) for the regression witness.

The `while` loop has no bound of its own when `max_it < 0`, so the model carries `fuel`;
`Res.outOfFuel` is "still running after `fuel` iterations" (defect 14b: for
`early_stopping=False, with_replacement=True, max_it=-1` this happens for every fuel).

Core Lean only (no imports).
-/

namespace DH.Select

/-! ### argsort, unique/counts -/

/-- insert `i` before the first `j` whose key is not smaller (stable when `i` precedes all of `js`) -/
def insertBy (key : Nat → Rat) (i : Nat) : List Nat → List Nat
  | [] => [i]
  | j :: js => if key i ≤ key j then i :: j :: js else j :: insertBy key i js

/-- stable argsort of `range n` by `key` -/
def argsort (key : Nat → Rat) (n : Nat) : List Nat :=
  (List.range n).foldr (insertBy key) []

/-- `np.unique(sel, return_counts=True)` for indices `< n`: sorted unique values with counts -/
def uniqueCounts (n : Nat) (sel : List Nat) : List (Nat × Nat) :=
  (List.range n).filterMap (fun i => if sel.count i = 0 then none else some (i, sel.count i))

/-- `len(np.unique(sel))` -/
def numUnique (n : Nat) (sel : List Nat) : Nat := (uniqueCounts n sel).length

/-- `counts / np.sum(counts)` -/
def weightsOf (uc : List (Nat × Nat)) : List Rat :=
  let tot : Nat := (uc.map (·.2)).sum
  uc.map (fun p => (p.2 : Rat) / (tot : Rat))

/-! ### TopKSelector -/

/-- `np.argsort(losses)[:k]` with weights `[1.0]*len` -/
def topK (order : List Nat) (k : Nat) : List Nat × List Rat :=
  let sel := order.take k
  (sel, List.replicate sel.length 1)

/-! ### GreedySelector -/

structure Opts where
  k : Nat
  kInit : Nat
  /-- `max_it`; negative = unbounded -/
  maxIt : Int
  epsTol : Rat
  withReplacement : Bool
  earlyStopping : Bool
  bagging : Bool
deriving Repr

/-- the three `continue` conditions of the candidate loop (negated) -/
def eligible (o : Opts) (sel bag : List Nat) (i : Nat) : Bool :=
  !((sel.length == 1 && sel.contains i) ||
    (!o.withReplacement && sel.contains i) ||
    (o.bagging && !bag.contains i))

/-- the per-candidate `losses` list of one iteration; `none` = `np.nan` -/
def candLosses (o : Opts) (n : Nat) (L : List (Nat × Nat) → Rat) (sel bag : List Nat) :
    List (Option Rat) :=
  (List.range n).map (fun i =>
    if eligible o sel bag i then some (L (uniqueCounts n (sel ++ [i]))) else none)

/-- `np.nanargmin` from position `i`: first index of the smallest non-NaN entry -/
def nanargminFrom : Nat → Option (Nat × Rat) → List (Option Rat) → Option (Nat × Rat)
  | _, best, [] => best
  | i, best, none :: xs => nanargminFrom (i + 1) best xs
  | i, none, some x :: xs => nanargminFrom (i + 1) (some (i, x)) xs
  | i, some (b, bv), some x :: xs =>
    if x < bv then nanargminFrom (i + 1) (some (i, x)) xs else nanargminFrom (i + 1) (some (b, bv)) xs

/-- `i_min_ = np.nanargmin(losses); loss_min_ = losses[i_min_]`; `none` = every entry is NaN -/
def nanargmin (xs : List (Option Rat)) : Option (Nat × Rat) := nanargminFrom 0 none xs

inductive Res where
  /-- `select` returned: the final `selected_indices` list (with repetitions, in insertion order) -/
  | ok (sel : List Nat)
  /-- still looping after the given number of iterations -/
  | outOfFuel
  /-- `ValueError`: `k_init = 0` or no candidate (aggregating an empty list) -/
  | emptyEnsemble
  /-- pre-fix only: `np.nanargmin` raised `All-NaN slice encountered` -/
  | allNaN
deriving Repr, DecidableEq

/-- the `while` condition -/
def continues (o : Opts) (n it : Nat) (sel : List Nat) : Bool :=
  (decide (o.maxIt < 0) || decide ((it : Int) < o.maxIt)) && decide (numUnique n sel < o.k)

/-- the two `break` conditions after `nanargmin` -/
def stops (o : Opts) (n : Nat) (sel : List Nat) (lossMin : Rat) (iMin : Nat) (lMin : Rat) : Bool :=
  (o.earlyStopping && decide (lossMin - o.epsTol ≤ lMin)) ||
  (numUnique n sel == 1 && sel.head? == some iMin)

/-- the greedy `while` loop (after fix 14a).  `fuel` = number of iterations the caller is willing to
wait for; it is only consulted when the loop condition holds, so `outOfFuel` means "the loop wants
to run iteration number `fuel + 1`". -/
def greedyLoop (o : Opts) (n : Nat) (L : List (Nat × Nat) → Rat) (bags : Nat → List Nat) :
    Nat → Nat → List Nat → Rat → Res
  | fuel, it, sel, lossMin =>
    if continues o n it sel then
      match fuel with
      | 0 => .outOfFuel
      | fuel' + 1 =>
        match nanargmin (candLosses o n L sel (bags it)) with
        | none => .ok sel                      -- fix 14a: no eligible candidate, stop
        | some (iMin, lMin) =>
          if stops o n sel lossMin iMin lMin then .ok sel
          else greedyLoop o n L bags fuel' (it + 1) (sel ++ [iMin]) lMin
    else .ok sel

/-- the loop of the pinned tree: an all-NaN candidate list is an error -/
def greedyLoopPre (o : Opts) (n : Nat) (L : List (Nat × Nat) → Rat) (bags : Nat → List Nat) :
    Nat → Nat → List Nat → Rat → Res
  | fuel, it, sel, lossMin =>
    if continues o n it sel then
      match fuel with
      | 0 => .outOfFuel
      | fuel' + 1 =>
        match nanargmin (candLosses o n L sel (bags it)) with
        | none => .allNaN
        | some (iMin, lMin) =>
          if stops o n sel lossMin iMin lMin then .ok sel
          else greedyLoopPre o n L bags fuel' (it + 1) (sel ++ [iMin]) lMin
    else .ok sel

/-- the starting ensemble: `np.argsort(losses)[:k_init]` -/
def initSel (o : Opts) (order : List Nat) : List Nat := order.take o.kInit

/-- `GreedySelector.select`: `order` = what argsort returned for the individual losses -/
def greedy (o : Opts) (n : Nat) (order : List Nat) (L0 : List Nat → Rat)
    (L : List (Nat × Nat) → Rat) (bags : Nat → List Nat) (fuel : Nat) : Res :=
  let init := initSel o order
  if init.isEmpty then .emptyEnsemble
  else greedyLoop o n L bags fuel 0 init (L0 init)

def greedyPre (o : Opts) (n : Nat) (order : List Nat) (L0 : List Nat → Rat)
    (L : List (Nat × Nat) → Rat) (bags : Nat → List Nat) (fuel : Nat) : Res :=
  let init := initSel o order
  if init.isEmpty then .emptyEnsemble
  else greedyLoopPre o n L bags fuel 0 init (L0 init)

/-- what `select` returns for a final list: `(unique indices, counts / total)` -/
def output (n : Nat) (sel : List Nat) : List Nat × List Rat :=
  let uc := uniqueCounts n sel
  (uc.map (·.1), weightsOf uc)

/-! ### one selector object serving a history of `select()` calls

A `TopKSelector` / `GreedySelector` object carries its options only: what a call returns is a function
of the candidates (and targets) handed to THAT call.  The model of the object is therefore a state
machine without state — the answer to call `i` is computed from call `i` alone, whatever the object
was asked before (other candidate lists, other targets, shorter / equal / longer lists). -/

/-- one `TopKSelector.select(y, y_predictors)` call as the model sees it: the individual losses of
the candidates of this call (w.r.t. the `y` of this call) and what `np.argsort` returned for them -/
structure TopKCall where
  losses : List Rat
  order : List Nat

/-- a `TopKSelector(k)` object answering a history of calls, in call order -/
def topKHistory (k : Nat) : List TopKCall → List (List Nat × List Rat)
  | [] => []
  | c :: cs => topK c.order k :: topKHistory k cs

/-- one `GreedySelector.select` call: its number of candidates and its environment -/
structure GreedyCall where
  n : Nat
  order : List Nat
  L0 : List Nat → Rat
  L : List (Nat × Nat) → Rat
  bags : Nat → List Nat
  fuel : Nat

/-- a `GreedySelector(o)` object answering a history of calls (with `bagging` the random stream of
the object continues across calls: every call has its own `bags`) -/
def greedyHistory (o : Opts) : List GreedyCall → List Res
  | [] => []
  | c :: cs => greedy o c.n c.order c.L0 c.L c.bags c.fuel :: greedyHistory o cs

/-! ### EnsemblePredictor: `sorted(jobs_done, key=lambda j: int(j.id.split(".")[-1]))` -/

/-- `int(id.split(".")[-1])` -/
def idNum (id : String) : Option Nat := (id.splitOn ".").getLast?.bind String.toNat?

/-- stable insertion of a job by numeric id -/
def insertJob {α : Type} (j : Nat × α) : List (Nat × α) → List (Nat × α)
  | [] => [j]
  | x :: xs => if j.1 ≤ x.1 then j :: x :: xs else x :: insertJob j xs

/-- `sorted(jobs, key=numeric id)` (stable) -/
def sortById {α : Type} (jobs : List (Nat × α)) : List (Nat × α) :=
  jobs.foldr insertJob []

/-- `self._evaluator.submit([{"predictor": p, "X": X} for p in predictors])`: the jobs get consecutive ids
from the evaluator's job counter (`start`: 0 for a fresh evaluator, larger when the evaluator already served
earlier calls), in the order of the `predictors` list — whatever kind of object each member is (`α` is
arbitrary: an in-memory `Predictor` of any class, a `PredictorLoader`, a mixture of them) -/
def submitJobs {α : Type} (start : Nat) : List α → List (Nat × α)
  | [] => []
  | m :: ms => (start, m) :: submitJobs (start + 1) ms

/-- `predictions_from_predictors`: submit in list order, gather in any order (`gathered`), sort by id,
return the payloads -/
def predictionsOf {α : Type} (gathered : List (Nat × α)) : List α := (sortById gathered).map (·.2)

/-! ### OnlineSelector.on_done: the masked candidate built from one finished job -/

/-- `buf[i] = v` for the pairs of `ps` in turn (NumPy fancy assignment: a later pair overwrites an earlier one) -/
def scatter (ps : List (Nat × Rat)) (buf : List (Option Rat)) : List (Option Rat) :=
  ps.foldl (fun b p => b.set p.1 (some p.2)) buf

/-- the candidate `OnlineSelector.on_done` appends for a finished job that reported the predictions `vals`
for the samples `idx` of the `S` validation targets: an array shaped like `y`, every entry masked (`none`)
except the entries `idx`, which hold the reported values — the VALUES THEMSELVES: the model has no notion of
a storage type, so nothing is rounded, truncated or converted on the way.  `none` = the assignment raises
(an index outside `y`, or as many values as indexes are not given). -/
def onlineCandidate (S : Nat) (idx : List Nat) (vals : List Rat) : Option (List (Option Rat)) :=
  if vals.length = idx.length ∧ idx.all (fun i => decide (i < S)) then
    some (scatter (idx.zip vals) (List.replicate S none))
  else none

/-! ### executable checkers for the implementation's own outputs (proved equivalent to their
specifications in `Proofs/SelectCheck.lean`) -/

/-- `TopKSelector.select` returned exactly the `min k n` lowest-loss members with weights `1` -/
def checkTopK (losses : List Rat) (k : Nat) (idx : List Nat) (ws : List Rat) : Bool :=
  let n := losses.length
  idx.length == min k n && decide idx.Nodup && idx.all (fun i => decide (i < n)) &&
  idx.all (fun i => (List.range n).all (fun j =>
    idx.contains j || decide (losses.getD i 0 ≤ losses.getD j 0))) &&
  decide (ws = List.replicate (min k n) 1)

/-- every call of a history on one `TopKSelector(k)` object returned exactly the `min k n` lowest-loss
members of the candidates of THAT call (`lossess`: the individual losses per call, `outs`: what the
object returned per call) -/
def checkTopKHistory (k : Nat) : List (List Rat) → List (List Nat × List Rat) → Bool
  | [], [] => true
  | l :: ls, o :: os => checkTopK l k o.1 o.2 && checkTopKHistory k ls os
  | _, _ => false

/-- `GreedySelector.select` returned valid, distinct, at most `bound` indices with as many positive
weights summing to one (up to `tol`, the rounding of `counts / total`) -/
def checkGreedyOut (tol : Rat) (n bound : Nat) (idx : List Nat) (ws : List Rat) : Bool :=
  decide idx.Nodup && idx.all (fun i => decide (i < n)) && !idx.isEmpty && decide (idx.length ≤ bound) &&
  ws.length == idx.length && ws.all (fun w => decide (0 < w)) &&
  decide (ws.sum - 1 ≤ tol) && decide (1 - ws.sum ≤ tol)

end DH.Select
