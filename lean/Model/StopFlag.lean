import Model.SharedStorage

/-!
# The `stopped` flag of `Search._search`: time budget, callbacks, `max_evals`

Code: `deephyper/hpo/_search.py` — `search` (`self.stopped = False` before the loop) and `_search`:

```
while not self.stopped and (max_evals < 0 or num_evals() < max_evals):
    new_batch = self.ask(n_ask); self._evaluator.submit(new_batch)
    new_results = self._evaluator.gather(self.gather_type, self.gather_batch_size)
    …dump, tell…
    time_left = self._evaluator.time_left                       # test 1: the time budget
    if time_left is not None and time_left <= 0:
        self.stopped = True
    if any((hasattr(c, "search_stopped") and c.search_stopped)  # test 2: a callback asks for the stop
           for c in self._evaluator._callbacks):
        self.stopped = True
```

Callbacks are an option of every evaluator (`Evaluator.create(..., method_kwargs={"callbacks": [...]})`); their
`on_done` runs inside `gather` for every local job, `on_done_other` for every job collected from another evaluator.
What `_search` sees of them is, at the end of each iteration, whether each one has an attribute `search_stopped`
and its value: a `CbView` (environment — `LoggerCallback` / `TqdmCallback` have no such attribute,
`SearchEarlyStopping` raises it after `patience` evaluations without improvement, a user's callback may do anything).

`loopF` / `searchF` are `loopO` / `searchO` of `Model/SharedStorage.lean` (the real `gather`, which also collects the
jobs of other evaluators) with the flag as an explicit state variable and one `CbView` per iteration.  The flag is only
ever *raised*; in particular a callback that has not fired cannot take back the expiry of the time budget.
In the results of `loopF` / `searchF` the stop reason `.timeout` stands for "the `stopped` flag was raised" (by the time
budget or by a callback; `flagsF` tells which).

Core Lean only.
-/

namespace DH.Timeout

/-- what `_search` sees of the callbacks at the end of one iteration: per callback `none` = no attribute
`search_stopped`, `some b` = its value -/
abbrev CbView := List (Option Bool)

/-- `any((hasattr(c, "search_stopped") and c.search_stopped) for c in callbacks)` -/
def fires (v : CbView) : Bool := v.any (fun c => c == some true)

/-- the two tests at the end of an iteration, applied to the current value of `self.stopped` -/
def raiseFlag (stopped expired : Bool) (v : CbView) : Bool :=
  let s1 := if expired then true else stopped
  if fires v then true else s1

/-- the `while` loop of `_search`; `stopped` = `self.stopped`; one `(local, other)` pair of reported ids per gather,
one `CbView` per iteration (a missing one = no callback) -/
def loopF (strict : Bool) (target : Int) :
    Ev → Bool → Nat → List (List Nat × List Nat) → List CbView → Ev × Stop
  | s, stopped, nAsk, reps, views =>
    if stopped = false ∧ (target < 0 ∨ numEvals strict s < target) then
      let sub := submitCap (askStep s) nAsk
      if sub.2 then (sub.1, .cap)
      else
        match reps with
        | [] => (sub.1, .envExhausted)
        | rep :: rest =>
          let ga := gatherO sub.1 false 1 rep.1 rep.2
          match ga.2 with
          | some .noJobs => (ga.1, .noJobs)
          | some .hang => (ga.1, .hang)
          | some .badEnv => (ga.1, .badEnv)
          | none =>
            loopF strict target ga.1 (raiseFlag stopped (expired ga.1) (views.headD [])) rep.1.length rest views.tail
    else (s, if stopped then .timeout else .budget)

/-- one iteration of the loop as far as the flag is concerned -/
structure FlagStep where
  before : Bool     -- `self.stopped` when the `while` condition let the iteration start
  expired : Bool    -- `time_left <= 0` at the end of the iteration
  fired : Bool      -- some callback had `search_stopped = True`
  after : Bool      -- `self.stopped` as the next evaluation of the `while` condition reads it
  deriving DecidableEq, Repr

/-- history variable: the flag through the iterations of `loopF` that completed their gather -/
def flagsF (strict : Bool) (target : Int) :
    Ev → Bool → Nat → List (List Nat × List Nat) → List CbView → List FlagStep
  | s, stopped, nAsk, reps, views =>
    if stopped = false ∧ (target < 0 ∨ numEvals strict s < target) then
      let sub := submitCap (askStep s) nAsk
      if sub.2 then []
      else
        match reps with
        | [] => []
        | rep :: rest =>
          let ga := gatherO sub.1 false 1 rep.1 rep.2
          match ga.2 with
          | some _ => []
          | none =>
            let st := raiseFlag stopped (expired ga.1) (views.headD [])
            { before := stopped, expired := expired ga.1, fired := fires (views.headD []), after := st } ::
              flagsF strict target ga.1 st rep.1.length rest views.tail
    else []

/-- the state in which `search()` enters `_search`: cap / offset of a strict call, the call's time budget -/
def prepF (s : Ev) (c : Call) : Ev :=
  setTimeout (if c.strict then { s with maxSub := c.maxEvals, offset := (s.results.length : Int) }
              else { s with maxSub := -1 }) c.timeout

def targetF (s2 : Ev) (c : Call) : Int :=
  if c.maxEvals < 0 then c.maxEvals else c.maxEvals + numEvals c.strict s2

/-- `search(max_evals, timeout, max_evals_strict)` on an evaluator created with `callbacks=[…]`: `searchO` with the
flag (`self.stopped = False` first) and the callbacks' views -/
def searchF (s : Ev) (c : Call) (reps : List (List Nat × List Nat)) (drainRep : List Nat × List Nat)
    (views : List CbView) : Ev × Stop :=
  let s2 := prepF s c
  let lp := loopF c.strict (targetF s2 c) s2 false s2.W reps views
  match lp.2 with
  | .noJobs => lp
  | .hang => lp
  | .badEnv => lp
  | .envExhausted => lp
  | stop =>
    if numSubmitted lp.1 > numGathered lp.1 then
      let ga := gatherO lp.1 true 0 drainRep.1 drainRep.2
      match ga.2 with
      | some .noJobs => (ga.1, .noJobs)
      | some .hang => (ga.1, .hang)
      | some .badEnv => (ga.1, .badEnv)
      | none =>
        if numSubmitted ga.1 > numGathered ga.1 then (ga.1, .hang)
        else ((close ga.1 []).1, stop)
    else ((close lp.1 []).1, stop)

/-- the flag history of a `search()` call -/
def searchFlags (s : Ev) (c : Call) (reps : List (List Nat × List Nat)) (views : List CbView) : List FlagStep :=
  let s2 := prepF s c
  flagsF c.strict (targetF s2 c) s2 false s2.W reps views

/-- one `search()` call of evaluator `k` (created with callbacks) with its environment -/
structure WCallF where
  k : Nat
  call : Call
  reps : List (List Nat × List Nat)
  drainRep : List Nat × List Nat
  views : List CbView := []

/-- a history of `search()` calls made by evaluators with callbacks attached to one storage -/
def wsearchesF (w : World) : List WCallF → World × List Stop
  | [] => (w, [])
  | c :: rest =>
    match w.evs[c.k]? with
    | some l =>
      let r := searchF (view w l) c.call c.reps c.drainRep c.views
      let rr := wsearchesF (put w c.k r.1) rest
      (rr.1, r.2 :: rr.2)
    | none => wsearchesF w rest

end DH.Timeout
