import Model.Dump

/-!
# The Python class of a sequence-valued objective (C04; shared results-table path of C15)

`Model/Dump.lean` represents a tuple and a list alike as `Val.list`.  The code, however, looks at
the CLASS of `job.objective` in three places of the path that ends in `results.csv`:

* `Evaluator._on_done`                       `isinstance(job.objective, (tuple, list))`
  (a non-finite component makes the evaluation a failure),
* `_dump_jobs_done_to_csv_as_hpo_format`     `isinstance(job.objective, (tuple, list))`
  (arity inference: `num_objective = len(job.objective)`, otherwise 1 for a non-string),
* the row builder of the same function       `isinstance(result["objective"], tuple) or isinstance(…, list)`
  (one `objective_<i>` cell per component, otherwise the object goes into `objective` / is repeated).

A run-function may hand its objectives back in any instance of `tuple` or `list` (`SeqKind`): a plain
tuple, a list, a `namedtuple`, a user's subclass of either - as the plain return value or as the value
of `"objective"` in the dict forms.  Here the three tests are parameters (`ClassTests`), the container
class of each job's objective is an environment function `kindOf : job id → SeqKind`, and the writer
`dumpStepK` is `dumpStep` with the tests made explicit.  `Props/C04.lean` proves that with tests that
accept the classes that occur the kinded writer IS `dumpStep` (so arity, header and cells do not depend
on the container class), and decides a witness for a test that only accepts the exact class `tuple`.

Not a `SeqKind`: a NumPy array.  `HPOJob.standardize_output` rejects it as a plain return value
(`TypeError`); it is not one of the property's return forms.

Core Lean + `Model/Dump.lean` only.
-/

namespace DH.Dump

/-- the Python class of the container of a multi-objective output -/
inductive SeqKind
  | tuple            -- `(a, b)`
  | list             -- `[a, b]`
  | namedtuple       -- `collections.namedtuple(...)(a, b)` : a subclass of tuple
  | tupleSubclass    -- `class T(tuple)`
  | listSubclass     -- `class L(list)`
  deriving DecidableEq, Repr

/-- `isinstance(o, (tuple, list))` : true for every `SeqKind` -/
def isinstanceTupleList : SeqKind → Bool := fun _ => true

/-- `type(o) is tuple` : the exact class only -/
def typeIsTuple : SeqKind → Bool
  | .tuple => true
  | _ => false

/-- `type(o) in (tuple, list)` : the two builtin classes only -/
def typeIsTupleOrList : SeqKind → Bool
  | .tuple => true
  | .list => true
  | _ => false

/-- the class tests of the path from `_on_done` to the row -/
structure ClassTests where
  onDone : SeqKind → Bool   -- `_on_done`: is the objective searched for non-finite components?
  infer : SeqKind → Bool    -- arity inference: is `len(objective)` the number of objectives?
  row : SeqKind → Bool      -- row builder: one `objective_<i>` cell per component?

/-- the tests of the code: `isinstance(…, (tuple, list))` three times -/
def codeTests : ClassTests := ⟨isinstanceTupleList, isinstanceTupleList, isinstanceTupleList⟩

/-- `_on_done` on the objective; `isSeq` = the class test on this objective's container -/
def onDoneObjectiveK (isSeq : Bool) (o : Val) : Val :=
  match o with
  | .nonfin _ => .str "F"
  | .list l => if isSeq && l.any isNonFinite then .str "F" else .list l
  | o => o

/-- arity a non-failed job contributes -/
def arityOfObjK (isSeq : Bool) : Val → Nat
  | .list l => if isSeq then l.length else 1
  | _ => 1

/-- the branch of the row builder for an objective that is not (recognised as) a sequence: the object
itself in `objective`, or repeated in `objective_0..n-1` once `num_objective > 1` is known -/
def scalarCells (numObj : Option Nat) (o : Val) : RowDict :=
  match numObj with
  | some n =>
    if n > 1 then (List.range n).map (fun i => (Col.objectiveI i, o)) else [(Col.objective, o)]
  | none => [(Col.objective, o)]

def objectiveCellsK (isSeq : Bool) (numObj : Option Nat) (o : Val) : RowDict :=
  if isSeq then objectiveCells numObj o else scalarCells numObj o

/-- arity inference with the class test explicit -/
def inferNumObjectiveK (T : ClassTests) (kindOf : Nat → SeqKind) (cur : Option Nat)
    (jobs : List JobRec) : Option Nat :=
  match cur with
  | some n => some n
  | none => (firstSuccess jobs).map (fun j => arityOfObjK (T.infer (kindOf j.id)) j.objective)

/-- the `result` dict of one job with the class test explicit -/
def resultOfK (T : ClassTests) (kindOf : Nat → SeqKind) (numObj : Option Nat) (j : JobRec) : RowDict :=
  j.args.map (fun kv => (Col.param kv.1, kv.2))
    ++ objectiveCellsK (T.row (kindOf j.id)) numObj j.objective
    ++ [(Col.jobId, Val.num j.id), (Col.jobStatus, Val.str j.status.name)]
    ++ (visibleMeta j.md).map (fun kv => (Col.mdata kv.1, kv.2))

/-- one call of `_dump_jobs_done_to_csv_as_hpo_format(flush)` with the class tests explicit
(`dumpStepWith` of `Model/Dump.lean` with `inferNumObjectiveK` / `resultOfK`) -/
def dumpStepK (T : ClassTests) (kindOf : Nat → SeqKind) (flush : Bool) (st : DumpState) :
    DumpState × DumpOut :=
  let numObj := inferNumObjectiveK T kindOf st.numObjective st.pending
  let results := st.pending.map (resultOfK T kindOf numObj)
  if st.pending.isEmpty then
    ({ st with numObjective := numObj }, ⟨none, []⟩)
  else
    let columns := if st.started then st.columns else chooseColumns flush st.columns results
    match columns with
    | none => ({ st with numObjective := numObj }, ⟨none, []⟩)
    | some cols =>
      ({ started := true, columns := some cols, numObjective := numObj, pending := [] },
       ⟨if st.started then none else some cols, writeRows cols results⟩)

/-- `Evaluator._on_done(job)` with the class test explicit -/
def onDoneK (T : ClassTests) (kindOf : Nat → SeqKind) (tGather : Val) (j : JobRec) : JobRec :=
  { j with
    status := if j.status = .running then .done else j.status
    md := dset j.md "timestamp_gather" tGather
    objective := onDoneObjectiveK (T.onDone (kindOf j.id)) j.objective }

/-- a run with the class tests explicit -/
def runOpsK (T : ClassTests) (kindOf : Nat → SeqKind) := runOpsWith (dumpStepK T kindOf)

end DH.Dump
