/-!
# Model of cooperative cancellation by timeout (job status machine, semaphore, search)

Code: `deephyper/evaluator/_serial.py` (`execute`; `_thread_pool.py` / `_process_pool.py` have the
same body with `run_in_executor`), `_evaluator.py` (`timeout`, `time_left`, `_create_tasks`,
`_on_launch`, `_on_done`, `gather`, `process_local_tasks_done`, `close`), `_job.py`
(`JobStatus`, `Job.status`), `hpo/_search.py` (`search`, `_search`).

```
async def execute(job):
    async with self.sem:                                  # Pc.created/queued -> acquire
        job.status = RUNNING
        fut = create_task(run_function(running_job))      # polls job.status, see `runFn`
        if self.timeout is not None:
            try:    output = await wait_for(shield(fut), timeout=self.time_left)   # Pc.waiting
            except TimeoutError:
                job.status = CANCELLING                                          # Pc.cancelling
                output = await fut
                job.status = CANCELLED
        else:       output = await fut                                            # Pc.waiting
        return job.set_output(output)                                             # Pc.returned
_on_done(job):  if job.status is RUNNING: job.status = DONE                       # Pc.gathered
close():        cancel tasks; gather the finished ones; every job still READY/RUNNING becomes
                CANCELLED (HPOJob: output "F_CANCELLED") and is appended to jobs_done  # Pc.closedOut
```

Time is a `Nat` clock of ticks.  The environment supplies, per job, the behaviour of the
run-function (`Spec`: it reads `job.status` once when it starts and then after each of `m`
sleeps of `p` ticks, returns as soon as it reads CANCELLING, otherwise after the `m`-th sleep;
`jobFirst` decides exact ties between one of its reads and the deadline), and per gather the
list of finished jobs that `asyncio.wait` reported (contract checked by the model: distinct,
running, already returned, enough of them; otherwise `GErr.badEnv`).

`submit` creates a **new** `asyncio.Semaphore(num_workers)` on every call (`set_event_loop`), and a
task evaluates `self.sem` when it first runs, i.e. in the next `gather`: `semGen` / `Job.gen`.

`close()` on the pinned tree leaves the cancelled tasks in `_tasks_running` (C01's defect 1, repaired
by another change); the model empties the list, and the correspondence never continues a scenario
after a `close()` that had to cancel something.

Core Lean only (no imports).
-/

namespace DH.Timeout

inductive Status where
  | ready | running | done | cancelling | cancelled
  deriving DecidableEq, Repr

/-- program counter of one job: where `execute()` / the evaluator's bookkeeping stands -/
inductive Pc where
  | created     -- task created by `submit`; the coroutine has not started yet
  | queued      -- blocked in `async with self.sem`
  | waiting     -- RUNNING: inside `wait_for(shield(run))` (or the plain `await run`)
  | cancelling  -- TimeoutError caught: CANCELLING, awaiting the run-function
  | returned    -- `execute` returned: task finished, not yet gathered
  | gathered    -- reported by `process_local_tasks_done`
  | closedOut   -- reported by `close()` as CANCELLED (was READY/RUNNING)
  | aborted     -- task cancelled by `close()` while CANCELLING: never reported
  deriving DecidableEq, Repr

inductive Outp where
  | none | val (v : Int) | fCancelled
  deriving DecidableEq, Repr

/-- behaviour of one run-function (environment) -/
structure Spec where
  m : Nat                 -- number of sleeps (status is read before the first and after each one)
  p : Nat                 -- ticks per sleep
  jobFirst : Bool := false  -- an exact tie read-vs-deadline is won by the job
  val : Int := 0          -- the value it returns
  deriving DecidableEq, Repr

/-- would a status read at instant `x` (after the first step of the run-function) see the
TimeoutError branch already taken, i.e. read CANCELLING -/
def sees (armed : Option Nat) (jobFirst : Bool) (x : Nat) : Bool :=
  match armed with
  | none => false
  | some c => decide (c < x) || (decide (c = x) && !jobFirst)

/-- the reads after the sleeps: this read at `x`, `r` more sleeps possible -/
def polls (armed : Option Nat) (jf : Bool) (p : Nat) : Nat → Nat → Nat × Bool
  | x, 0 => (x, sees armed jf x)
  | x, r + 1 => if sees armed jf x then (x, true) else polls armed jf p (x + p) r

/-- run-function started at `s` (RUNNING was written just before, so its first read is RUNNING):
(instant it returns, whether its last read was CANCELLING) -/
def runFn (armed : Option Nat) (sp : Spec) (s : Nat) : Nat × Bool :=
  match sp.m with
  | 0 => (s, false)
  | r + 1 => polls armed sp.jobFirst sp.p (s + sp.p) r

structure Job where
  spec : Spec
  pc : Pc := .created
  status : Status := .ready
  log : List Status := [.ready]    -- history variable: every status write, in order
  gen : Nat := 0                   -- the semaphore it queues on / holds
  start : Nat := 0                 -- instant of acquisition
  armed : Option Nat := none       -- deadline captured at acquisition (`none`: no timeout was set)
  ret : Nat := 0                   -- instant the run-function returns
  saw : Bool := false              -- the run-function's last read was CANCELLING
  fired : Bool := false            -- TimeoutError is raised before the result arrives
  output : Outp := .none
  deriving DecidableEq, Repr

def Job.write (j : Job) (st : Status) : Job := { j with status := st, log := j.log ++ [st] }

/-! ### per-job transitions (control flow of `execute`, `_on_done`, `close`) -/

/-- blocked on the semaphore `g` -/
def jQueue (g : Nat) (j : Job) : Job :=
  if j.pc = .created then { j with pc := .queued, gen := g } else j

/-- semaphore `g` acquired at `now`; `deadline` = what `self.timeout`/`time_left` say at this instant -/
def jAcquire (g now : Nat) (deadline : Option Nat) (j : Job) : Job :=
  if j.pc = .created ∨ j.pc = .queued then
    let r := runFn deadline j.spec now
    { (j.write .running) with pc := .waiting, gen := g, start := now, armed := deadline,
                              ret := r.1, saw := r.2, fired := sees deadline j.spec.jobFirst r.1 }
  else j

/-- `except TimeoutError: job.status = CANCELLING` -/
def jFire (j : Job) : Job :=
  if j.pc = .waiting ∧ j.fired = true then { (j.write .cancelling) with pc := .cancelling } else j

/-- the run-function's result arrives (after the TimeoutError branch if that comes first) -/
def jReturn (j : Job) : Job :=
  let j1 := jFire j
  if j1.pc = .waiting then { j1 with pc := .returned, output := .val j1.spec.val }
  else if j1.pc = .cancelling then
    { (j1.write .cancelled) with pc := .returned, output := .val j1.spec.val }
  else j1

/-- `process_local_tasks_done` → `_on_done` -/
def jOnDone (j : Job) : Job :=
  if j.pc = .returned then
    (if j.status = .running then { (j.write .done) with pc := .gathered } else { j with pc := .gathered })
  else j

/-- `close()` with tasks still in `_tasks_running` -/
def jClose (hpo : Bool) (j : Job) : Job :=
  if j.pc = .returned then jOnDone j
  else if j.pc = .created ∨ j.pc = .queued ∨ j.pc = .waiting then
    { (j.write .cancelled) with pc := .closedOut, output := if hpo then .fCancelled else j.output }
  else if j.pc = .cancelling then { j with pc := .aborted }
  else j

/-! ### the evaluator -/

/-- apply `f` to the job with id `i` -/
def upd (f : Job → Job) : Nat → List Job → List Job
  | _, [] => []
  | 0, j :: js => f j :: js
  | i + 1, j :: js => j :: upd f i js

structure Ev where
  W : Nat
  hpo : Bool := false              -- `_job_class is HPOJob` (set by `Search`)
  specs : List Spec := []          -- environment: run-function of job id `i` (ids in submit order)
  now : Nat := 0
  deadline : Option Nat := none    -- `_time_timeout_set + _timeout`
  semGen : Nat := 0
  jobs : List Job := []            -- `self.jobs`; index = job id
  running : List Nat := []         -- `_tasks_running` (job ids)
  results : List Nat := []         -- history of `jobs_done`: ids in the order they were reported
  offset : Int := 0                -- `_num_jobs_offset`
  maxSub : Int := -1               -- `maximum_num_jobs_submitted`
  askDelays : List Nat := []       -- environment: ticks each `ask()` of the search takes (missing = 0)
  deriving Repr

def pcOf (s : Ev) (i : Nat) : Option Pc := (s.jobs[i]?).map (·.pc)

/-- `evaluator.timeout = t` / `= None` -/
def setTimeout (s : Ev) (t : Option Nat) : Ev :=
  { s with deadline := t.map (fun t => s.now + t) }

/-- `submit` of `k` configurations (no cap): new semaphore, `k` new READY jobs -/
def submitN (s : Ev) (k : Nat) : Ev :=
  let n := s.jobs.length
  let new := (List.range k).map (fun i => ({ spec := (s.specs[n + i]?).getD { m := 0, p := 0 } } : Job))
  { s with semGen := s.semGen + 1, jobs := s.jobs ++ new,
           running := s.running ++ (List.range k).map (fun i => n + i) }

/-- permits of semaphore `g` in use -/
def inUse (g : Nat) (jobs : List Job) : Nat :=
  (jobs.filter (fun j => j.gen = g ∧ (j.pc = .waiting ∨ j.pc = .cancelling))).length

/-- first loop iteration of a `run_until_complete`: every task that has not started yet runs up to
its first suspension: acquires the **current** semaphore or queues on it (submission order) -/
def startCreated (W g now : Nat) (deadline : Option Nat) : List Job → List Job → List Job
  | acc, [] => acc
  | acc, j :: js =>
    if j.pc = .created then
      if inUse g (acc ++ j :: js) < W then startCreated W g now deadline (acc ++ [jAcquire g now deadline j]) js
      else startCreated W g now deadline (acc ++ [jQueue g j]) js
    else startCreated W g now deadline (acc ++ [j]) js

/-- index of the running job (waiting/cancelling) that returns first (lowest id on ties) -/
def nextReturn : List Job → Nat → Option (Nat × Nat) → Option (Nat × Nat)
  | [], _, best => best
  | j :: js, i, best =>
    if j.pc = .waiting ∨ j.pc = .cancelling then
      match best with
      | some (_, r) => if j.ret < r then nextReturn js (i + 1) (some (i, j.ret)) else nextReturn js (i + 1) best
      | none => nextReturn js (i + 1) (some (i, j.ret))
    else nextReturn js (i + 1) best

/-- index of the first job queued on semaphore `g` -/
def firstQueued (g : Nat) : List Job → Nat → Option Nat
  | [], _ => none
  | j :: js, i => if j.pc = .queued ∧ j.gen = g then some i else firstQueued g js (i + 1)

/-- how many of the tasks in `running` have finished -/
def doneCount (s : Ev) : Nat :=
  (s.running.filter (fun i => pcOf s i = some .returned)).length

/-- one event: the earliest pending return happens at `max now ret`; its permit goes to the first
job queued on the same semaphore, which starts at that instant -/
def stepReturn (s : Ev) : Option Ev :=
  match nextReturn s.jobs 0 none with
  | none => none
  | some (i, r) =>
    let now := max s.now r
    let g := ((s.jobs[i]?).map (·.gen)).getD 0
    let jobs1 := upd jReturn i s.jobs
    let jobs2 := match firstQueued g jobs1 0 with
      | some q => upd (jAcquire g now s.deadline) q jobs1
      | none => jobs1
    some { s with now := now, jobs := jobs2 }

/-- run the loop until `need` tasks of `running` have finished; `false` = nothing left that could
return (the real `asyncio.wait` would block for ever) -/
def advance (need : Nat) : Nat → Ev → Ev × Bool
  | 0, s => (s, decide (need ≤ doneCount s))
  | fuel + 1, s =>
    if need ≤ doneCount s then (s, true)
    else match stepReturn s with
      | none => (s, false)
      | some s' => advance need fuel s'

/-- the other returns that are due at the instant the clock has reached (tasks finishing in the
same tick, and the jobs their permits start if those return at once) -/
def flush : Nat → Ev → Ev
  | 0, s => s
  | fuel + 1, s =>
    match nextReturn s.jobs 0 none with
    | none => s
    | some (_, r) =>
      if r ≤ s.now then
        match stepReturn s with
        | some s' => flush fuel s'
        | none => s
      else s

/-- TimeoutError branches whose deadline has passed by `now` (clock moved by other jobs' events) -/
def fireDue (now : Nat) (j : Job) : Job :=
  match j.armed with
  | some c => if max c j.start ≤ now then jFire j else j
  | none => j

inductive GErr where
  | noJobs     -- ValueError("No jobs pending, call Evaluator.submit(jobs)!")
  | hang       -- `asyncio.wait` would never return
  | badEnv     -- the reported tasks break the contract of `asyncio.wait`
  deriving DecidableEq, Repr

/-- `process_local_tasks_done` for the reported ids, one at a time -/
def report : Ev → List Nat → Option Ev
  | s, [] => some s
  | s, i :: rest =>
    if i ∈ s.running ∧ pcOf s i = some .returned then
      report { s with jobs := upd jOnDone i s.jobs, running := s.running.erase i,
                      results := s.results ++ [i] } rest
    else none

/-- the waiting part of `gather` (`_await_at_least_n_tasks`): the loop runs until `need` of the
running tasks have finished; `false` = it would never return -/
def waitFor (s : Ev) (need : Nat) : Ev × Bool :=
  let s1 := { s with jobs := startCreated s.W s.semGen s.now s.deadline [] s.jobs }
  let adv := advance need s1.jobs.length s1
  if adv.2 = false then (adv.1, false)
  else
    let fl := flush adv.1.jobs.length adv.1
    ({ fl with jobs := fl.jobs.map (fireDue fl.now) }, true)

/-- `gather` once the batch size is known (`size ≥ 1`) -/
def gatherN (s : Ev) (size : Nat) (rep : List Nat) : Ev × Option GErr :=
  if s.running = [] then (s, some .noJobs)
  else
    let need := min size s.running.length
    let w := waitFor s need
    if w.2 = false then (w.1, some .hang)
    else if rep.length < need ∨ (need = s.running.length ∧ rep.length ≠ need) then (w.1, some .badEnv)
    else match report w.1 rep with
      | some s3 => (s3, none)
      | none => (w.1, some .badEnv)

/-- `gather("ALL")` (`all = true`) or `gather("BATCH", size)`; `rep` = the finished tasks reported by
`asyncio.wait`, in the order `process_local_tasks_done` iterates over them -/
def gather (s : Ev) (all : Bool) (size : Nat) (rep : List Nat) : Ev × Option GErr :=
  let size := if all then s.running.length else size
  if size = 0 then
    (if rep = [] then (s, none) else (s, some .badEnv))
  else gatherN s size rep

/-- the event loop runs without time passing (`run_until_complete(asyncio.sleep(0))`, used by the
correspondence harness to let everything that is due at the current instant happen): tasks not yet
started run their first step, returns due now happen, due TimeoutError branches are taken -/
def settle (s : Ev) : Ev := (waitFor s 0).1

/-- ids that `close()` appends to `jobs_done` (READY/RUNNING jobs, in `self.jobs` order, after the
finished-but-ungathered ones) -/
def closeReported (i : Nat) : List Job → List Nat
  | [] => []
  | j :: js =>
    if j.pc = .created ∨ j.pc = .queued ∨ j.pc = .waiting then i :: closeReported (i + 1) js
    else closeReported (i + 1) js

/-- `close()`; `rep` = order in which the finished-but-ungathered tasks are processed -/
def close (s : Ev) (rep : List Nat) : Ev × Option GErr :=
  if s.running = [] then (s, none)
  else
    -- the loop runs once more: tasks not yet started are cancelled before their first step
    let fin := s.running.filter (fun i => pcOf s i = some .returned)
    if rep.length ≠ fin.length then (s, some .badEnv)
    else match report s rep with
      | none => (s, some .badEnv)
      | some s1 =>
        let late := closeReported 0 s1.jobs
        ({ s1 with jobs := s1.jobs.map (jClose s.hpo), running := [], results := s1.results ++ late }, none)

/-! ### `Search.search` on this evaluator (budget arithmetic as in `Model/Search.lean`) -/

def numSubmitted (s : Ev) : Int := (s.jobs.length : Int) - s.offset
def numGathered (s : Ev) : Int := (s.results.length : Int) - s.offset
def numEvals (strict : Bool) (s : Ev) : Int := if strict then numSubmitted s else numGathered s

/-- `_create_tasks` with the cap: `true` = MaximumJobsSpawnReached raised -/
def submitCap (s : Ev) : Nat → Ev × Bool
  | 0 => (s, false)
  | k + 1 =>
    if 0 < s.maxSub ∧ s.maxSub ≤ numSubmitted s then (s, true)
    else
      let n := s.jobs.length
      submitCap { s with jobs := s.jobs ++ [{ spec := (s.specs[n]?).getD { m := 0, p := 0 } }],
                         running := s.running ++ [n] } k

structure Call where
  maxEvals : Int := -1
  strict : Bool := false
  timeout : Option Nat := none      -- seconds = ticks; `_check_timeout` (int > 0) is C03's model
  deriving Repr

inductive Stop where
  | budget | cap | timeout | noJobs | hang | badEnv | envExhausted
  deriving DecidableEq, Repr

/-- `time_left <= 0` -/
def expired (s : Ev) : Bool :=
  match s.deadline with
  | some d => decide (d ≤ s.now)
  | none => false

/-- `ask(n_ask)` (takes as long as the environment says — a slow surrogate fit lets the clock pass the
deadline between the `time_left` test and the submit), then `submit` builds a new semaphore -/
def askStep (s : Ev) : Ev :=
  { s with semGen := s.semGen + 1, now := s.now + s.askDelays.headD 0, askDelays := s.askDelays.tail }

/-- the `while` loop of `_search`; one list of reported ids per gather -/
def loop (strict : Bool) (target : Int) : Ev → Nat → List (List Nat) → Ev × Stop
  | s, nAsk, reps =>
    if target < 0 ∨ numEvals strict s < target then
      let sub := submitCap (askStep s) nAsk
      if sub.2 then (sub.1, .cap)
      else
        match reps with
        | [] => (sub.1, .envExhausted)
        | rep :: rest =>
          let ga := gather sub.1 false 1 rep
          match ga.2 with
          | some .noJobs => (ga.1, .noJobs)
          | some .hang => (ga.1, .hang)
          | some .badEnv => (ga.1, .badEnv)
          | none =>
            if expired ga.1 then (ga.1, .timeout)
            else loop strict target ga.1 rep.length rest
    else (s, .budget)

/-- `search(max_evals, timeout, max_evals_strict)` (repaired code); `drainRep` = order of the jobs
collected by the final `gather("ALL")` -/
def search (s : Ev) (c : Call) (reps : List (List Nat)) (drainRep : List Nat) : Ev × Stop :=
  let s1 := if c.strict then { s with maxSub := c.maxEvals, offset := (s.results.length : Int) }
            else { s with maxSub := -1 }
  let s2 := setTimeout s1 c.timeout
  let target := if c.maxEvals < 0 then c.maxEvals else c.maxEvals + numEvals c.strict s2
  let lp := loop c.strict target s2 s2.W reps
  match lp.2 with
  | .noJobs => lp
  | .hang => lp
  | .badEnv => lp
  | .envExhausted => lp
  | stop =>
    -- while num_jobs_submitted > num_jobs_gathered: gather("ALL")
    if numSubmitted lp.1 > numGathered lp.1 then
      let ga := gather lp.1 true 0 drainRep
      match ga.2 with
      | some .noJobs => (ga.1, .noJobs)
      | some .hang => (ga.1, .hang)
      | some .badEnv => (ga.1, .badEnv)
      | none =>
        if numSubmitted ga.1 > numGathered ga.1 then (ga.1, .hang)
        else ((close ga.1 []).1, stop)
    else ((close lp.1 []).1, stop)

def init (W : Nat) (hpo : Bool) (specs : List Spec) : Ev := { W := W, hpo := hpo, specs := specs }

/-- the operations a user (or `Search`) performs on the evaluator, with their environment -/
inductive Op where
  | timeout (t : Option Nat)
  | submit (k : Nat)
  | gather (all : Bool) (size : Nat) (rep : List Nat)
  | close (rep : List Nat)
  | settle
  | askDelays (ds : List Nat)
  | search (c : Call) (reps : List (List Nat)) (drainRep : List Nat)
  deriving Repr

def step (s : Ev) : Op → Ev
  | .timeout t => setTimeout s t
  | .submit k => submitN s k
  | .gather all size rep => (gather s all size rep).1
  | .close rep => (close s rep).1
  | .settle => settle s
  | .askDelays ds => { s with askDelays := ds }
  | .search c reps drainRep => (search s c reps drainRep).1

def runOps (s : Ev) : List Op → Ev
  | [] => s
  | op :: rest => runOps (step s op) rest

/-- the evaluator reached by a sequence of operations from a fresh one -/
def reach (W : Nat) (hpo : Bool) (specs : List Spec) (ops : List Op) : Ev :=
  runOps (init W hpo specs) ops

/-- one `search()` call with its environment -/
structure SCall where
  call : Call
  reps : List (List Nat)
  drainRep : List Nat

/-- a sequence of `search()` calls on one search object -/
def runSearches (s : Ev) : List SCall → Ev × List Stop
  | [] => (s, [])
  | sc :: rest =>
    let r := search s sc.call sc.reps sc.drainRep
    let rr := runSearches r.1 rest
    (rr.1, r.2 :: rr.2)

end DH.Timeout

/-! ### checker over observed status logs (the L3 oracle; proved equivalent to `Spec` in `Props/C14.lean`)

One `JobObs` per submitted job, in submission order (index = job id), built by the harness from what
the implementation did: the sequence of status writes, the tick it started / returned, the natural end
of its run-function, the deadline that was in effect when it started (`none`: no timeout requested),
whether its last status read was CANCELLING, whether it reads the status again after starting, whether the
evaluator's loop ran between the deadline and its return (CANCELLING is written by the loop: while the caller
keeps the loop from running no evaluation can observe it), whether
one of its instants coincides with the deadline (`tie`: either outcome is accepted), whether it was
reported by a gather, whether the reported value is the one it returned. -/

namespace DH.Timeout
open Status

structure JobObs where
  log : List Status
  start : Nat
  ret : Nat
  natEnd : Nat
  deadline : Option Nat
  saw : Bool
  pollsAgain : Bool
  loopRan : Bool          -- the evaluator's event loop ran between the deadline and the job's return
  tie : Bool
  gathered : Bool
  valueKept : Bool
  deriving Repr

structure Obs where
  jobs : List JobObs
  results : List Nat      -- ids in the results table / `jobs_done`, in order
  complete : Bool         -- the scenario ended with a returned `search()` / a final `gather("ALL")`
  deriving Repr

def logDone : List Status := [ready, running, done]
def logCancelled : List Status := [ready, running, cancelling, cancelled]

def monotoneB (l : List Status) : Bool :=
  (!l.isEmpty && (l.isPrefixOf logDone || l.isPrefixOf logCancelled)) ||
  l == [ready, cancelled] || l == [ready, running, cancelled]

def terminalB (l : List Status) : Bool :=
  l.getLast? == some done || l.getLast? == some cancelled

def classifiedB (j : JobObs) : Bool :=
  match j.deadline with
  | none => j.log == logDone && !j.saw
  | some c =>
    (!decide (c < j.start) || (j.log == logCancelled && (!j.pollsAgain || j.saw))) &&
    (!(decide (j.start < c) && decide (c < j.natEnd)) || (j.log == logCancelled && (!j.loopRan || j.saw))) &&
    (!(decide (j.ret < c) && decide (j.natEnd < c)) || (j.log == logDone && !j.saw))

def checkStatusLog (o : Obs) : Bool :=
  o.jobs.all (fun j => monotoneB j.log) &&
  (decide o.results.Nodup && o.results.all (fun i => decide (i < o.jobs.length))) &&
  (!o.complete || (List.range o.jobs.length).all (fun i => o.results.contains i)) &&
  o.results.all (fun i => match o.jobs[i]? with | some j => terminalB j.log | none => true) &&
  o.jobs.all (fun j => !j.gathered || j.tie || (classifiedB j && j.valueKept))

end DH.Timeout
