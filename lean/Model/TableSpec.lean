import Model.DumpPareto

/-!
# The specification of the results table and its executable checker (C04)

`specCell n j c` is the property's reading of one cell: column `c` of the line of job `j` in a
table of arity `n`.  `checkTable` decides, for the **real** file content (header names, cells as
text plus — for numeric text — the exact rational `Fraction(float(text))` computed by the
harness), whether the file is the table the property asks for: one line per finished job (by
`job_id`), every cell equal to `specCell` (numbers within the relative tolerance of the property,
strings verbatim), all configuration keys, the objective columns of the arity, `job_id`,
`job_status` and the metadata keys of the first successful job present.  `cols` is the parse of the header names into columns (untrusted input:
the checker re-renders it and compares with the names; by `Col.name_injective` it is unique).

Core Lean only (imports other model files).
-/

namespace DH.Dump

/-- `num_objective` is undecided or 1: a scalar/failure is written to the single `objective` column -/
def le1 : Option Nat → Bool
  | none => true
  | some n => decide (n ≤ 1)

/-- The property's reading of a cell: column `c` of the line of job `j` when the table's arity
is `n` (`none` = the cell is empty). -/
def specCell (n : Option Nat) (j : JobRec) : Col → Option Val
  | .param k => dget j.args k
  | .jobId => some (Val.num j.id)
  | .jobStatus => some (Val.str j.status.name)
  | .mdata k => dget (visibleMeta j.md) k
  | .objective =>
    match j.objective with
    | .list _ => none
    | o => if le1 n then some o else none
  | .objectiveI i =>
    match j.objective with
    | .list l => l[i]?
    | o =>
      match n with
      | some m => if m > 1 ∧ i < m then some o else none
      | none => none

/-- the objective columns of a table of arity `n` -/
def objColsOf : Option Nat → List Col
  | some m => if m > 1 then (List.range m).map Col.objectiveI else [Col.objective]
  | none => [Col.objective]

/-! ### the checker -/

/-- a cell of the real file -/
structure CellIn where
  text : String
  num : Option Rat   -- `Fraction(int(text))` / `Fraction(float(text))` when `text` is a number
  deriving Repr, DecidableEq

def ratAbs (q : Rat) : Rat := if q < 0 then -q else q

def ratMax (a b : Rat) : Rat := if a ≤ b then b else a

/-- the file's cell shows the value `want` (`none` = empty) -/
def cellOK (tol : Rat) (c : CellIn) (want : Option Val) : Bool :=
  match want with
  | none => c.text == ""
  | some .none => c.text == ""
  | some (.str s) => c.text == s
  | some (.num q) =>
    match c.num with
    | some q' => decide (ratAbs (q' - q) ≤ tol * ratMax (ratAbs q) (ratAbs q'))
    | none => false
  | some _ => false

/-- the cell of `row` in column `c` (first column of that kind) -/
def cellAt : List Col → List CellIn → Col → Option CellIn
  | d :: cols, x :: row, c => if d = c then some x else cellAt cols row c
  | _, _, _ => none

/-- the line carries this job id (exactly) -/
def hasId (cols : List Col) (id : Nat) (row : List CellIn) : Bool :=
  match cellAt cols row Col.jobId with
  | some x => cellOK 0 x (some (Val.num id))
  | none => false

def rowMatches (tol : Rat) (cols : List Col) (n : Option Nat) (j : JobRec) (row : List CellIn) : Bool :=
  row.length == cols.length && (cols.zip row).all (fun p => cellOK tol p.2 (specCell n j p.1))

/-- the metadata keys known when the header is written: those of the first non-failed job (the
writer starts at the first success; `jobs` are in finishing order) — they must all be columns -/
def headerMetaOK (cols : List Col) (jobs : List JobRec) : Bool :=
  match firstSuccess jobs with
  | some hj => (visibleMeta hj.md).all (fun kv => cols.contains (Col.mdata kv.1))
  | none => true

/-- `needMeta = false` only for the one situation a `search()` cannot produce: a `flush=True` dump
whose pending jobs have a failure in front of the first success (the writer then takes the
failure's keys) -/
def checkTable (tol : Rat) (cols : List Col) (hdr : List String) (rows : List (List CellIn))
    (jobs : List JobRec) (n : Option Nat) (needMeta : Bool := true) : Bool :=
  (!needMeta || headerMetaOK cols jobs) &&
  decide (cols.map Col.name = hdr) &&
  cols.contains Col.jobId && cols.contains Col.jobStatus &&
  decide (cols.filter isObjCol = objColsOf n) &&
  jobs.all (fun j => j.args.all (fun kv => cols.contains (Col.param kv.1))) &&
  rows.length == jobs.length &&
  decide ((jobs.map (·.id)).Nodup) &&
  jobs.all (fun j =>
    (rows.filter (hasId cols j.id)).length == 1 &&
    rows.all (fun r => !hasId cols j.id r || rowMatches tol cols n j r))

end DH.Dump
