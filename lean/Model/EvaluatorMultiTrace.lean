import Model.EvaluatorMulti
import Model.EvaluatorTrace

/-!
# Observable traces of several evaluators on one storage search, and C01 stated over them

A trace is the global sequence of calls `(who, call)` with what the caller saw: the call's result (for a
gather the jobs handed back **and** the jobs of other evaluators reported with them; the ids of the rows a
dump appended; the kind of exception; `MaximumJobsSpawnReached`), the evaluator's two counters and its
`jobs_done` afterwards.  No environment input, no private state.

`MTraceSpec` is the property over such a trace; `checkMTrace` decides it (`Props/C01.lean`:
`C01_multi_checker`), every trace of the model satisfies it (`C01_multi_model_traces_ok`).  The harness sends
the trace observed on the REAL evaluators to the driver, which evaluates `checkMTrace`.
-/

namespace DH.Evaluator

inductive MTOp (C : Type)
  | submit (cfgs : List C)
  | gather (all : Bool) (k : Nat)
  | close
  | dump
  | setMax (n : Int)
  deriving DecidableEq, Repr

inductive MTRes (C O : Type)
  | unit
  | jobs (l : List (JobRec C O)) (other : List (JobRec C O))
  | rows (ids : List Nat)
  | error (e : EKind)
  | spawnMax
  deriving DecidableEq, Repr

structure MTStep (C O : Type) where
  who : Nat
  op : MTOp C
  res : MTRes C O
  numSubmitted : Int
  numGathered : Int
  jobsDone : List (JobRec C O)
  deriving DecidableEq, Repr

/-- what the observer has learnt about one evaluator -/
structure EAcc (C O : Type) where
  /-- its own jobs handed back by a gather or recorded by close, and how -/
  delivered : List (Nat × Via)
  /-- the same jobs as the records the caller saw at that moment -/
  recs : List (JobRec C O)
  /-- jobs of other evaluators a gather reported to it -/
  reported : List Nat
  /-- ids in `jobs_done` (awaiting a dump) -/
  pending : List Nat
  /-- `_num_jobs_offset` as the code defines it: the jobs accounted for when the cap was last set -/
  offset : Nat
  /-- `maximum_num_jobs_submitted` -/
  cap : Int
  deriving Repr

structure MAcc (C O : Type) where
  /-- every configuration that became a job of the search: job `k` carries `cfgs[k]` -/
  cfgs : List C
  /-- `owners[k]` = the evaluator that submitted job `k` -/
  owners : List Nat
  evs : List (EAcc C O)
  deriving Repr

variable {C O : Type}

def EAcc.init : EAcc C O :=
  { delivered := [], recs := [], reported := [], pending := [], offset := 0, cap := -1 }

def MAcc.init (n : Nat) : MAcc C O := { cfgs := [], owners := [], evs := List.replicate n EAcc.init }

def MAcc.ev (a : MAcc C O) (who : Nat) : EAcc C O := a.evs.getD who EAcc.init

/-- jobs submitted by `who` and not yet accounted for -/
def MAcc.inflight (a : MAcc C O) (who : Nat) : Nat := a.owners.count who - (a.ev who).delivered.length

/-- every job delivered so far to an evaluator other than `who`, as its owner saw it -/
def MAcc.foreignRecs (a : MAcc C O) (who : Nat) : List (JobRec C O) :=
  (List.range a.evs.length).flatMap (fun w => if w = who then [] else (a.ev w).recs)

/-- how many configurations of a submit become jobs: all of them without a cap, else those created before
`num_jobs_submitted >= maximum_num_jobs_submitted` holds -/
def MAcc.room (a : MAcc C O) (who : Nat) (n : Nat) : Nat :=
  let e := a.ev who
  if 0 < e.cap then min n (e.cap - ((a.cfgs.length : Int) - e.offset)).toNat else n

/-! ### the clauses -/

/-- an own job: submitted by `who`, never accounted for before, with the configuration it was submitted with -/
def OwnFresh (a : MAcc C O) (who : Nat) (j : JobRec C O) : Prop :=
  a.owners[j.id]? = some who ∧ j.id ∉ (a.ev who).delivered.map (·.1) ∧ a.cfgs[j.id]? = some j.cfg

def MGatheredOk (p : MParams C O) (a : MAcc C O) (who : Nat) (j : JobRec C O) : Prop :=
  OwnFresh a who j ∧ j.status = .done ∧ j.out = some (p.f j.cfg)

def MClosedOk (p : MParams C O) (a : MAcc C O) (who : Nat) (j : JobRec C O) : Prop :=
  OwnFresh a who j ∧
    ((j.status = .done ∧ j.out = some (p.f j.cfg)) ∨
     (j.status = .cancelled ∧ j.out = if p.hpo then some p.cancelOut else none))

/-- a job of another evaluator reported by a gather: its owner has already delivered it (gather or close),
the report is the very record the owner saw (configuration, output, status), not reported to `who` before -/
def ReportedOk (p : MParams C O) (a : MAcc C O) (who : Nat) (o : JobRec C O) : Prop :=
  o ∈ a.foreignRecs who ∧ o.id ∉ (a.ev who).reported ∧ a.cfgs[o.id]? = some o.cfg ∧
    p.hpo = true ∧ truthyOut p o.out = true

/-- the code reports every finished job of the others that has a (truthy) stored output, at the first gather after -/
def ReportsAll (p : MParams C O) (a : MAcc C O) (who : Nat) (others : List (JobRec C O)) : Prop :=
  ∀ r ∈ a.foreignRecs who, r.id ∉ (a.ev who).reported → p.hpo = true → truthyOut p r.out = true →
    r.id ∈ others.map (·.id)

def MBatchOk (a : MAcc C O) (who : Nat) (all : Bool) (k n : Nat) : Prop :=
  min (if all then a.inflight who else k) (a.inflight who) ≤ n ∧ (all = true → n = a.inflight who)

def setEv (a : MAcc C O) (who : Nat) (e : EAcc C O) : MAcc C O := { a with evs := a.evs.set who e }

def mNextAcc (a : MAcc C O) (st : MTStep C O) : MAcc C O :=
  let e := a.ev st.who
  match st.op, st.res with
  | .submit cfgs, .unit =>
    { a with cfgs := a.cfgs ++ cfgs, owners := a.owners ++ List.replicate cfgs.length st.who }
  | .submit cfgs, .spawnMax =>
    let m := a.room st.who cfgs.length
    { a with cfgs := a.cfgs ++ cfgs.take m, owners := a.owners ++ List.replicate m st.who }
  | .gather _ _, .jobs js others =>
    setEv a st.who { e with
      delivered := e.delivered ++ js.map (fun j => (j.id, Via.gather))
      recs := e.recs ++ js
      reported := e.reported ++ others.map (·.id)
      pending := e.pending ++ js.map (·.id) ++ others.map (·.id) }
  | .close, .unit =>
    let new := st.jobsDone.drop e.pending.length
    setEv a st.who { e with
      delivered := e.delivered ++ new.map (fun j => (j.id, Via.close))
      recs := e.recs ++ new
      pending := e.pending ++ new.map (·.id) }
  | .dump, .rows ids => if ids = [] then a else setEv a st.who { e with pending := [] }
  | .setMax n, .unit => setEv a st.who { e with cap := n, offset := e.delivered.length + e.reported.length }
  | _, _ => a

def MCallOk (p : MParams C O) (a : MAcc C O) (st : MTStep C O) : Prop :=
  let e := a.ev st.who
  match st.op, st.res with
  | .submit cfgs, .unit =>
    a.room st.who cfgs.length = cfgs.length ∧ st.jobsDone.map (·.id) = e.pending
  | .submit cfgs, .spawnMax =>
    -- the cap is the only reason not to create a job, and it is raised exactly when some are left out
    a.room st.who cfgs.length < cfgs.length ∧ st.jobsDone.map (·.id) = e.pending
  | .gather all k, .jobs js others =>
    (js.map (·.id)).Nodup ∧ (∀ j ∈ js, MGatheredOk p a st.who j) ∧ MBatchOk a st.who all k js.length ∧
      (others.map (·.id)).Nodup ∧ (∀ o ∈ others, ReportedOk p a st.who o) ∧ ReportsAll p a st.who others ∧
      st.jobsDone.map (·.id) = e.pending ++ js.map (·.id) ++ others.map (·.id)
  | .gather all k, .error err =>
    err ≠ .other ∧ all = false ∧ k ≠ 0 ∧ a.inflight st.who = 0 ∧ st.jobsDone.map (·.id) = e.pending
  | .close, .unit =>
    let new := st.jobsDone.drop e.pending.length
    (st.jobsDone.take e.pending.length).map (·.id) = e.pending ∧
      (new.map (·.id)).Nodup ∧ (∀ j ∈ new, MClosedOk p a st.who j) ∧ new.length = a.inflight st.who
  | .dump, .rows ids =>
    (ids = [] ∧ st.jobsDone.map (·.id) = e.pending) ∨ (ids = e.pending ∧ st.jobsDone = [])
  | .setMax _, .unit => st.jobsDone.map (·.id) = e.pending
  | _, _ => False

/-- the counters as the code defines them: jobs of the shared search / own deliveries + reports, minus the offset -/
def MCountersOk (a : MAcc C O) (st : MTStep C O) : Prop :=
  let a' := mNextAcc a st
  let e' := a'.ev st.who
  st.numSubmitted = (a'.cfgs.length : Int) - e'.offset ∧
    st.numGathered = ((e'.delivered.length + e'.reported.length : Nat) : Int) - e'.offset

def MStepOk (p : MParams C O) (a : MAcc C O) (st : MTStep C O) : Prop :=
  st.who < a.evs.length ∧ MCallOk p a st ∧ MCountersOk a st

def MTraceSpecFrom (p : MParams C O) : MAcc C O → List (MTStep C O) → Prop
  | _, [] => True
  | a, st :: rest => MStepOk p a st ∧ MTraceSpecFrom p (mNextAcc a st) rest

/-- **C01 over an observable trace of `n` evaluators on one storage search** -/
def MTraceSpec (p : MParams C O) (n : Nat) (t : List (MTStep C O)) : Prop := MTraceSpecFrom p (MAcc.init n) t

/-! ### the decision procedure -/

section decide
variable [DecidableEq C] [DecidableEq O]

instance (a : MAcc C O) (who : Nat) (j : JobRec C O) : Decidable (OwnFresh a who j) := by
  unfold OwnFresh; infer_instance
instance (p : MParams C O) (a : MAcc C O) (who : Nat) (j : JobRec C O) : Decidable (MGatheredOk p a who j) := by
  unfold MGatheredOk; infer_instance
instance (p : MParams C O) (a : MAcc C O) (who : Nat) (j : JobRec C O) : Decidable (MClosedOk p a who j) := by
  unfold MClosedOk; infer_instance
instance (p : MParams C O) (a : MAcc C O) (who : Nat) (o : JobRec C O) : Decidable (ReportedOk p a who o) := by
  unfold ReportedOk; infer_instance
instance (p : MParams C O) (a : MAcc C O) (who : Nat) (l : List (JobRec C O)) : Decidable (ReportsAll p a who l) := by
  unfold ReportsAll; infer_instance
instance (a : MAcc C O) (who : Nat) (all : Bool) (k n : Nat) : Decidable (MBatchOk a who all k n) := by
  unfold MBatchOk; infer_instance
instance (p : MParams C O) (a : MAcc C O) (st : MTStep C O) : Decidable (MCallOk p a st) := by
  unfold MCallOk; split <;> infer_instance
instance (a : MAcc C O) (st : MTStep C O) : Decidable (MCountersOk a st) := by
  unfold MCountersOk; infer_instance
instance (p : MParams C O) (a : MAcc C O) (st : MTStep C O) : Decidable (MStepOk p a st) := by
  unfold MStepOk; infer_instance

def checkMTraceFrom (p : MParams C O) (a : MAcc C O) : List (MTStep C O) → Bool
  | [] => true
  | st :: rest => decide (MStepOk p a st) && checkMTraceFrom p (mNextAcc a st) rest

/-- the checker the driver runs on the implementation's trace -/
def checkMTrace (p : MParams C O) (n : Nat) (t : List (MTStep C O)) : Bool := checkMTraceFrom p (MAcc.init n) t

def mFirstBad (p : MParams C O) : MAcc C O → Nat → List (MTStep C O) → Option (Nat × MAcc C O × MTStep C O)
  | _, _, [] => none
  | a, i, st :: rest =>
    if decide (MStepOk p a st) then mFirstBad p (mNextAcc a st) (i + 1) rest else some (i, a, st)

end decide

/-! ### the trace of a model run -/

def mEraseOp : MOp C → MTOp C
  | .submit cfgs => .submit cfgs
  | .gather all k _ _ => .gather all k
  | .close _ => .close
  | .dump _ => .dump
  | .setMax n => .setMax n

def mToRes : MOut C O → MTRes C O
  | .unit => .unit
  | .jobs l o => .jobs l o
  | .rows l => .rows (l.map (·.id))
  | .spawnMax _ => .spawnMax
  | .error .noLoop => .error .noLoop
  | .error .noJobs => .error .noJobs
  | .error _ => .error .other

def mObsStep (p : MParams C O) (s : Sys C O) (who : Nat) (op : MOp C) : MTStep C O :=
  let r := mStep p s who op
  let me := r.1.evs.getD who MEv.init
  { who := who, op := mEraseOp op, res := mToRes r.2, numSubmitted := mNumSubmitted r.1.rows me,
    numGathered := mNumGathered me, jobsDone := doneRecs r.1.rows me }

def mTraceOf (p : MParams C O) : Sys C O → List (Nat × MOp C) → List (MTStep C O)
  | _, [] => []
  | s, (who, op) :: ops => mObsStep p s who op :: mTraceOf p (mStep p s who op).1 ops

end DH.Evaluator
