/-!
# Model of `deephyper/evaluator/storage/_memory_storage.py` (`MemoryStorage`)

`SharedMemoryStorage` is the same object behind a `multiprocessing.managers.BaseManager` proxy:
every method call of every client is executed by the one server object, so the sequential model
below is also the model of the shared storage *provided each method call is atomic* (see
`Conc`, and `createJobRead`/`createJobCommit` for what happens otherwise).

The nested dicts are kept verbatim:

```
self._search_id_counter = 0
self._data = { search_id : {"job_id_counter": n, "data": { partial_id : JOB }, <free keys> : value } }
JOB = {"status": 0, "in": None, "out": None, "metadata": {}, "intermediate": {"budget": [], "objective": []}}
```

A Python dict is an insertion-ordered association list (`aget`/`aset`); identifiers are the
strings the code builds (`f"{counter}"` = `Nat.repr`, `f"{search_id}.{partial_id}"`), and
`job_id.split(".")` is `splitDot`.  Stored values are a small JSON-like tree `Val`.

Every method is a pure step `Store → Store × Out`; where the code raises, the step returns
`Out.error kind` and the state the code leaves behind (unchanged in all cases here: every
method raises before its first write).

Not modelled: `store_search_value(search_id, key, …)` with `key ∈ {"job_id_counter", "data"}`
(it overwrites the storage's own bookkeeping entries; the step answers `Out.outOfModel` and the
theorems exclude such calls, see `Op.inScope`).  Loading those two keys *is* modelled.

Core Lean only (no imports).
-/

namespace DH.Storage

/-- stored Python values (JSON-like; `tuple` because `store_job_in` stores the positional args) -/
inductive Val where
  | none
  | bool (b : Bool)
  | int (i : Int)
  | num (q : Rat)
  | str (s : String)
  | list (l : List Val)
  | tuple (l : List Val)
  | dict (kv : List (String × Val))
  deriving Repr, Inhabited

/-! ### Python dicts with string keys: insertion-ordered association lists -/

def aget {α : Type} (k : String) : List (String × α) → Option α
  | [] => none
  | (a, v) :: r => if a = k then some v else aget k r

/-- `d[k] = v` : overwrite in place or append -/
def aset {α : Type} (k : String) (v : α) : List (String × α) → List (String × α)
  | [] => [(k, v)]
  | (a, w) :: r => if a = k then (a, v) :: r else (a, w) :: aset k v r

def keys {α : Type} (d : List (String × α)) : List String := d.map (·.1)

/-! ### identifiers -/

/-- `f"{search_id}.{partial_id}"` -/
def jobId (sid pid : String) : String := sid ++ "." ++ pid

/-- `str.split(".")` on a list of characters (never returns the empty list) -/
def splitDot : List Char → List (List Char)
  | [] => [[]]
  | c :: cs =>
    match splitDot cs with
    | [] => [[]]
    | h :: t => if c = '.' then [] :: h :: t else (c :: h) :: t

/-- `search_id, partial_id = job_id.split(".")` ; `none` = `ValueError` -/
def parseJobId (jid : String) : Option (String × String) :=
  match splitDot jid.toList with
  | [a, b] => some (String.ofList a, String.ofList b)
  | _ => none

/-! ### keys of any hashable type

`Storage` declares keys (and identifiers) `Hashable`, not `str`: `store_search_value(sid, 1, a)` and
`store_search_value(sid, "1", b)` are two entries, as are `None` / `"None"` and `(0, 1)` / `"(0, 1)"`.  The model keeps
string keys; a key of another type is *rendered* to a string that no other key renders to (`Key.render`; injectivity is
`C13_key_rendering_injective`).  `Key` is the key up to the equality a Python dict uses: `1 == 1.0 == True` are one key
(`num 1`), `0 == 0.0 == False` another; tuples are compared item by item.  Rendering:

```
str s        ↦ s                 (or "#s" ++ s when s itself starts with '#')
None         ↦ "#N"
number q     ↦ "#n" ++ numerator ++ "/" ++ denominator          (lowest terms, denominator > 0)
(a₁, …, aₙ)  ↦ "#t" ++ len(text a₁) ++ ":" ++ text a₁ ++ … ++ len(text aₙ) ++ ":" ++ text aₙ
```

Strings that do not start with `'#'` — all keys the library itself uses — are rendered as themselves. -/

inductive KAtom where
  | str (s : String)
  | none
  | num (q : Rat)
  deriving Repr, DecidableEq

inductive Key where
  | atom (a : KAtom)
  | tuple (l : List KAtom)
  deriving Repr, DecidableEq

def intChars (i : Int) : List Char :=
  if i < 0 then '-' :: (Nat.repr i.natAbs).toList else (Nat.repr i.natAbs).toList

/-- a str key: itself, escaped when it starts with '#' -/
def strChars : List Char → List Char
  | '#' :: r => '#' :: 's' :: '#' :: r
  | l => l

def KAtom.chars : KAtom → List Char
  | .str s => strChars s.toList
  | .none => ['#', 'N']
  | .num q => '#' :: 'n' :: (intChars q.num ++ '/' :: (Nat.repr q.den).toList)

/-- one item of a tuple: the length of its text, a colon, the text -/
def chunk (a : KAtom) : List Char := (Nat.repr a.chars.length).toList ++ ':' :: a.chars

def chunks : List KAtom → List Char
  | [] => []
  | a :: r => chunk a ++ chunks r

def Key.chars : Key → List Char
  | .atom a => a.chars
  | .tuple l => '#' :: 't' :: chunks l

/-- the string key of the model for a key of any type -/
def Key.render (k : Key) : String := String.ofList k.chars

/-! ### the state -/

/-- one job's dict -/
abbrev Job := List (String × Val)

def newJob : Job :=
  [("status", .int 0), ("in", .none), ("out", .none), ("metadata", .dict []),
   ("intermediate", .dict [("budget", .list []), ("objective", .list [])])]

/-- `self._data[search_id]` -/
structure Search where
  counter : Nat                     -- "job_id_counter"
  jobs : List (String × Job)        -- "data"
  free : List (String × Val)        -- the other keys (`store_search_value`)
  deriving Repr

structure Store where
  searchCounter : Nat               -- `_search_id_counter`
  data : List (String × Search)     -- `_data`
  deriving Repr

def Store.init : Store := ⟨0, []⟩

inductive Err where
  | keyError | valueError | typeError | attributeError
  deriving DecidableEq, Repr

inductive Out where
  | none                              -- the method returned None
  | id (s : String)
  | ids (l : List String)
  | val (v : Val)
  | vals (l : List Val)
  | error (e : Err)
  | outOfModel
  deriving Repr

inductive Op where
  | createSearch
  | createJob (sid : String)
  | storeJob (jid key : String) (v : Val)
  | storeJobIn (jid : String) (args kwargs : Val)
  | storeJobOut (jid : String) (v : Val)
  | storeJobMetadata (jid key : String) (v : Val)
  | storeJobStatus (jid : String) (v : Val)
  | storeSearchValue (sid key : String) (v : Val)
  | loadAllSearchIds
  | loadAllJobIds (sid : String)
  | loadSearch (sid : String)
  | loadJob (jid : String)
  | loadSearchValue (sid key : String)
  | loadMetadataFromAllJobs (sid key : String)
  | loadOutFromAllJobs (sid : String)
  | loadJobs (jids : List String)
  | loadJobStatus (jid : String)
  deriving Repr

def reservedKey (k : String) : Bool := k == "job_id_counter" || k == "data"

/-- calls covered by the model (everything except overwriting the bookkeeping keys) -/
def Op.inScope : Op → Bool
  | .storeSearchValue _ key _ => !reservedKey key
  | _ => true

/-! ### the methods -/

/-- `create_new_search()` -/
def createSearch (s : Store) : Store × Out :=
  let sid := Nat.repr s.searchCounter
  ({ searchCounter := s.searchCounter + 1, data := aset sid ⟨0, [], []⟩ s.data }, .id sid)

/-- `create_new_job(search_id)` -/
def createJob (s : Store) (sid : String) : Store × Out :=
  match aget sid s.data with
  | none => (s, .error .keyError)
  | some S =>
    let pid := Nat.repr S.counter
    ({ s with data := aset sid { S with counter := S.counter + 1, jobs := aset pid newJob S.jobs } s.data },
     .id (jobId sid pid))

/-- locate a job: `search_id, partial_id = job_id.split(".")`, then the two dict lookups -/
def findJob (s : Store) (jid : String) : Except Err (String × String × Search × Job) :=
  match parseJobId jid with
  | none => .error .valueError
  | some (sid, pid) =>
    match aget sid s.data with
    | none => .error .keyError
    | some S =>
      match aget pid S.jobs with
      | none => .error .keyError
      | some j => .ok (sid, pid, S, j)

/-- replace the dict of an existing job -/
def putJob (s : Store) (sid pid : String) (S : Search) (j : Job) : Store :=
  { s with data := aset sid { S with jobs := aset pid j S.jobs } s.data }

/-- `store_job(job_id, key, value)` -/
def storeJob (s : Store) (jid key : String) (v : Val) : Store × Out :=
  match findJob s jid with
  | .error e => (s, .error e)
  | .ok (sid, pid, S, j) => (putJob s sid pid S (aset key v j), .none)

/-- `store_job_metadata(job_id, key, value)` : `job["metadata"][key] = value` -/
def storeJobMetadata (s : Store) (jid key : String) (v : Val) : Store × Out :=
  match findJob s jid with
  | .error e => (s, .error e)
  | .ok (sid, pid, S, j) =>
    match aget "metadata" j with
    | none => (s, .error .keyError)
    | some (.dict m) => (putJob s sid pid S (aset "metadata" (.dict (aset key v m)) j), .none)
    | some _ => (s, .error .typeError)      -- item assignment on None / int / str / list / tuple

/-- a job dict as the value `load_job` returns (a deep copy) -/
def jobVal (j : Job) : Val := .dict j

def jobsVal (jobs : List (String × Job)) : Val := .dict (jobs.map (fun (p, j) => (p, jobVal j)))

/-- `load_search_value(search_id, key)` on the search dict -/
def searchGet (S : Search) (key : String) : Option Val :=
  if key = "job_id_counter" then some (.int S.counter)
  else if key = "data" then some (jobsVal S.jobs)
  else aget key S.free

/-- `job_data_i["metadata"].get(key, None)` ; errors as in Python -/
def metaGet (j : Job) (key : String) : Except Err Val :=
  match aget "metadata" j with
  | none => .error .keyError
  | some (.dict m) => .ok ((aget key m).getD .none)
  | some _ => .error .attributeError

def isNone : Val → Bool
  | .none => true
  | _ => false

/-- the loop of `load_metadata_from_all_jobs` -/
def collectMeta (key : String) : List (String × Job) → Except Err (List Val)
  | [] => .ok []
  | (_, j) :: r =>
    match metaGet j key with
    | .error e => .error e
    | .ok v =>
      match collectMeta key r with
      | .error e => .error e
      | .ok vs => .ok (if isNone v then vs else v :: vs)

/-- the loop of `load_out_from_all_jobs` -/
def collectOut : List (String × Job) → Except Err (List Val)
  | [] => .ok []
  | (_, j) :: r =>
    match aget "out" j with
    | none => .error .keyError
    | some v =>
      match collectOut r with
      | .error e => .error e
      | .ok vs => .ok (if isNone v then vs else v :: vs)

/-- the loop of `load_jobs` (`data[job_id] = job_data`) -/
def collectJobs (s : Store) : List String → List (String × Val) → Except Err (List (String × Val))
  | [], acc => .ok acc
  | jid :: r, acc =>
    match findJob s jid with
    | .error e => .error e
    | .ok (_, _, _, j) => collectJobs s r (aset jid (jobVal j) acc)

def outOfExcept {α : Type} (f : α → Out) : Except Err α → Out
  | .ok a => f a
  | .error e => .error e

/-- one method call -/
def step (s : Store) : Op → Store × Out
  | .createSearch => createSearch s
  | .createJob sid => createJob s sid
  | .storeJob jid key v => storeJob s jid key v
  | .storeJobIn jid args kwargs => storeJob s jid "in" (.dict [("args", args), ("kwargs", kwargs)])
  | .storeJobOut jid v => storeJob s jid "out" v
  | .storeJobStatus jid v => storeJob s jid "status" v
  | .storeJobMetadata jid key v => storeJobMetadata s jid key v
  | .storeSearchValue sid key v =>
    match aget sid s.data with
    | none => (s, .error .keyError)
    | some S =>
      if reservedKey key then (s, .outOfModel)
      else ({ s with data := aset sid { S with free := aset key v S.free } s.data }, .none)
  | .loadAllSearchIds => (s, .ids (keys s.data))
  | .loadAllJobIds sid =>
    match aget sid s.data with
    | none => (s, .error .keyError)
    | some S => (s, .ids ((keys S.jobs).map (jobId sid)))
  | .loadSearch sid =>
    match aget sid s.data with
    | none => (s, .error .keyError)
    | some S => (s, .val (jobsVal S.jobs))
  | .loadJob jid => (s, outOfExcept (fun (_, _, _, j) => .val (jobVal j)) (findJob s jid))
  | .loadSearchValue sid key =>
    match aget sid s.data with
    | none => (s, .error .keyError)
    | some S =>
      match searchGet S key with
      | none => (s, .error .keyError)
      | some v => (s, .val v)
  | .loadMetadataFromAllJobs sid key =>
    match aget sid s.data with
    | none => (s, .error .keyError)
    | some S => (s, outOfExcept .vals (collectMeta key S.jobs))
  | .loadOutFromAllJobs sid =>
    match aget sid s.data with
    | none => (s, .error .keyError)
    | some S => (s, outOfExcept .vals (collectOut S.jobs))
  | .loadJobs jids => (s, outOfExcept (fun d => .val (.dict d)) (collectJobs s jids []))
  | .loadJobStatus jid =>
    match findJob s jid with
    | .error e => (s, .error e)
    | .ok (_, _, _, j) =>
      match aget "status" j with
      | none => (s, .error .keyError)
      | some v => (s, .val v)

/-- a history: the state after it and the outputs in order -/
def run : Store → List Op → Store × List Out
  | s, [] => (s, [])
  | s, op :: ops =>
    let (s1, o) := step s op
    let (s2, os) := run s1 ops
    (s2, o :: os)

/-! ### evaluator-level status: `Job.status` / `RunningJob.status`

Client handles of a job (`Job(id, …, storage)` objects kept by an evaluator, the `RunningJob` handed to the run-function,
objects made on the spot) keep NO status of their own: the getter is `JobStatus(storage.load_job_status(id))`, the setter
`storage.store_job_status(id, status.value)`.  So any number of handles on one job, and the storage methods themselves, are
one and the same view of the stored status. -/

/-- `JobStatus(v).value`: one of 0…4; a value that is EQUAL to one of them (`True == 1`, `2.0 == 2`) names it; anything else
is a `ValueError` -/
def statusOfVal : Val → Option Int
  | .int i => if 0 ≤ i ∧ i ≤ 4 then some i else none
  | .bool b => some (if b then 1 else 0)
  | .num q => if q.den = 1 ∧ 0 ≤ q.num ∧ q.num ≤ 4 then some q.num else none
  | _ => none

/-- what ANY handle on job `jid` shows -/
def viewStatus (s : Store) (jid : String) : Out :=
  match (step s (.loadJobStatus jid)).2 with
  | .val v =>
    match statusOfVal v with
    | some i => .val (.int i)
    | none => .error .valueError
  | o => o

/-- `handle.status = JobStatus(i)` through ANY handle on job `jid` -/
def setStatus (s : Store) (jid : String) (i : Int) : Store × Out := step s (.storeJobStatus jid (.int i))

/-- the defect class: a handle that remembers the status it last saw or wrote and, once that is DONE (2) or CANCELLED (4),
answers from memory -/
structure CachingHandle where
  jid : String
  seen : Option Int

def CachingHandle.get (h : CachingHandle) (s : Store) : CachingHandle × Out :=
  match h.seen with
  | some 2 => (h, .val (.int 2))
  | some 4 => (h, .val (.int 4))
  | _ =>
    match viewStatus s h.jid with
    | .val (.int i) => ({ h with seen := some i }, .val (.int i))
    | o => (h, o)


/-! ### the specification: a simple map  search ↦ job ↦ record  (no order, no counters) -/

/-- a job's record / a search's free values: key ↦ value -/
abbrev Rec := String → Option Val

structure Spec where
  vals : String → Option Rec                 -- search ↦ its free values (`none`: no such search)
  jobs : String → String → Option Rec        -- search, job ↦ record      (`none`: no such job)

def recOf (d : List (String × Val)) : Rec := fun k => aget k d

/-- the abstraction function -/
def abs (s : Store) : Spec where
  vals sid := (aget sid s.data).map (fun S => recOf S.free)
  jobs sid pid := (aget sid s.data).bind (fun S => (aget pid S.jobs).map recOf)

def upd {α : Type} (f : String → α) (k : String) (v : α) : String → α := fun x => if x = k then v else f x

/-- `record[key] = v` for the job `(sid, pid)` -/
def Spec.setKey (a : Spec) (sid pid key : String) (v : Val) : Spec :=
  { a with jobs := fun s p => if s = sid ∧ p = pid then (a.jobs s p).map (fun r => upd r key (some v)) else a.jobs s p }

/-- the same, the job given by its identifier -/
def Spec.storeKey (a : Spec) (jid key : String) (v : Val) : Spec :=
  match parseJobId jid with
  | some (sid, pid) => a.setKey sid pid key v
  | none => a

/-- the record of a job given by its identifier -/
def Spec.recOfJob (a : Spec) (jid : String) : Option Rec :=
  match parseJobId jid with
  | some (sid, pid) => a.jobs sid pid
  | none => none

/-- the map after a call that answered `out` (only successful creates/stores change it) -/
def Spec.next (a : Spec) : Op → Out → Spec
  | .createSearch, .id sid =>
    { vals := upd a.vals sid (some (fun _ => none)), jobs := fun s p => if s = sid then none else a.jobs s p }
  | .createJob _, .id jid =>
    match parseJobId jid with
    | some (sid, pid) => { a with jobs := fun s p => if s = sid ∧ p = pid then some (recOf newJob) else a.jobs s p }
    | none => a
  | .storeJob jid key v, .none => a.storeKey jid key v
  | .storeJobIn jid args kwargs, .none => a.storeKey jid "in" (.dict [("args", args), ("kwargs", kwargs)])
  | .storeJobOut jid v, .none => a.storeKey jid "out" v
  | .storeJobStatus jid v, .none => a.storeKey jid "status" v
  | .storeJobMetadata jid key v, .none =>
    match (a.recOfJob jid).bind (· "metadata") with
    | some (.dict m) => a.storeKey jid "metadata" (.dict (aset key v m))
    | _ => a
  | .storeSearchValue sid key v, .none =>
    { a with vals := fun s => if s = sid then (a.vals s).map (fun r => upd r key (some v)) else a.vals s }
  | _, _ => a

/-- `kvs` is a dict holding exactly the record `r` -/
def Holds (kvs : List (String × Val)) (r : Rec) : Prop := ∀ k, aget k kvs = r k

/-- the answer a store to job `jid` must give -/
def Spec.storeAnswer (a : Spec) (jid : String) (out : Out) : Prop :=
  match parseJobId jid with
  | none => out = .error .valueError
  | some (sid, pid) =>
    match a.jobs sid pid with
    | none => out = .error .keyError
    | some _ => out = .none

/-- what the map says a call must answer (the three loads over all jobs of a search and `load_jobs`
are specified by their elements; reading a bookkeeping key is left open) -/
def Spec.answers (a : Spec) : Op → Out → Prop
  | .createSearch, out => ∃ sid, out = .id sid ∧ a.vals sid = none
  | .createJob sid, out =>
    match a.vals sid with
    | none => out = .error .keyError
    | some _ => ∃ pid, out = .id (jobId sid pid) ∧ parseJobId (jobId sid pid) = some (sid, pid) ∧ a.jobs sid pid = none
  | .storeJob jid _ _, out => a.storeAnswer jid out
  | .storeJobIn jid _ _, out => a.storeAnswer jid out
  | .storeJobOut jid _, out => a.storeAnswer jid out
  | .storeJobStatus jid _, out => a.storeAnswer jid out
  | .storeJobMetadata jid _ _, out =>
    match parseJobId jid with
    | none => out = .error .valueError
    | some (sid, pid) =>
      match a.jobs sid pid with
      | none => out = .error .keyError
      | some r =>
        match r "metadata" with
        | none => out = .error .keyError
        | some (.dict _) => out = .none
        | some _ => out = .error .typeError
  | .storeSearchValue sid _ _, out =>
    match a.vals sid with
    | none => out = .error .keyError
    | some _ => out = .none
  | .loadAllSearchIds, out => ∃ l, out = .ids l ∧ ∀ sid, sid ∈ l ↔ (a.vals sid).isSome
  | .loadAllJobIds sid, out =>
    match a.vals sid with
    | none => out = .error .keyError
    | some _ => ∃ l, out = .ids l ∧ ∀ x, x ∈ l ↔ ∃ pid, x = jobId sid pid ∧ (a.jobs sid pid).isSome
  | .loadSearch sid, out =>
    match a.vals sid with
    | none => out = .error .keyError
    | some _ => ∃ kvs, out = .val (.dict kvs) ∧ ∀ pid,
        match aget pid kvs, a.jobs sid pid with
        | some (.dict kv), some r => Holds kv r
        | none, none => True
        | _, _ => False
  | .loadJob jid, out =>
    match parseJobId jid with
    | none => out = .error .valueError
    | some (sid, pid) =>
      match a.jobs sid pid with
      | none => out = .error .keyError
      | some r => ∃ kvs, out = .val (.dict kvs) ∧ Holds kvs r
  | .loadJobStatus jid, out =>
    match parseJobId jid with
    | none => out = .error .valueError
    | some (sid, pid) =>
      match a.jobs sid pid with
      | none => out = .error .keyError
      | some r =>
        match r "status" with
        | none => out = .error .keyError
        | some v => out = .val v
  | .loadSearchValue sid key, out =>
    match a.vals sid with
    | none => out = .error .keyError
    | some r =>
      if reservedKey key then True
      else match r key with
        | none => out = .error .keyError
        | some v => out = .val v
  | .loadOutFromAllJobs sid, out =>
    match a.vals sid with
    | none => out = .error .keyError
    | some _ => ∀ l, out = .vals l → ∀ v, v ∈ l ↔ (isNone v = false ∧ ∃ pid r, a.jobs sid pid = some r ∧ r "out" = some v)
  | .loadMetadataFromAllJobs sid key, out =>
    match a.vals sid with
    | none => out = .error .keyError
    | some _ => ∀ l, out = .vals l → ∀ v, v ∈ l ↔
        (isNone v = false ∧ ∃ pid r m, a.jobs sid pid = some r ∧ r "metadata" = some (.dict m) ∧ aget key m = some v)
  | .loadJobs jids, out =>
    ∀ d, out = .val (.dict d) → ∀ jid, match aget jid d with
      | none => jid ∉ jids
      | some (.dict kv) => jid ∈ jids ∧ ∃ r, a.recOfJob jid = some r ∧ Holds kv r
      | some _ => False

/-! ### locations: what a load reads, what a store writes -/

inductive Loc where
  | job (jid key : String)        -- one top-level key of a job's record (`status`, `in`, `out`, `metadata`, …)
  | mdata (jid key : String)      -- one key of a job's `metadata` dict
  | search (sid key : String)     -- one free value of a search

/-- the value the map holds at a location -/
def Spec.read (a : Spec) : Loc → Option Val
  | .job jid key => (a.recOfJob jid).bind (· key)
  | .mdata jid key =>
    match (a.recOfJob jid).bind (· "metadata") with
    | some (.dict m) => aget key m
    | _ => none
  | .search sid key => (a.vals sid).bind (· key)

/-- the job / search of the location exists -/
def Spec.has (a : Spec) : Loc → Bool
  | .job jid _ => (a.recOfJob jid).isSome
  | .mdata jid _ => (a.recOfJob jid).isSome
  | .search sid _ => (a.vals sid).isSome

/-- the call stores to (or over) the location -/
def Op.writes : Op → Loc → Bool
  | .storeJob j k _, .job jid key => j == jid && k == key
  | .storeJobIn j _ _, .job jid key => j == jid && "in" == key
  | .storeJobOut j _, .job jid key => j == jid && "out" == key
  | .storeJobStatus j _, .job jid key => j == jid && "status" == key
  | .storeJobMetadata j _ _, .job jid key => j == jid && "metadata" == key
  | .storeJob j k _, .mdata jid _ => j == jid && k == "metadata"
  | .storeJobMetadata j k _, .mdata jid key => j == jid && k == key
  | .storeSearchValue s k _, .search sid key => s == sid && k == key
  | _, _ => false

/-! ### a checker for observed histories: "the answers are those of the map specification"

`SpecRun a h` says that the observed history `h` (calls paired with the answers the REAL storage gave) is a run
of the map specification from the map `a`: every answer is one the map allows (`Spec.answers`) and the map then
moves as specified for that answer (`Spec.next`).  `checkHistory` decides `SpecRun Spec.empty` (theorem
`C13_checker`); it keeps the map as finite dicts (a `Store` whose counters are not used) and is what the driver
evaluates on the answers of `MemoryStorage` and `SharedMemoryStorage`. -/

def Spec.empty : Spec := ⟨fun _ => none, fun _ _ => none⟩

def SpecRun : Spec → List (Op × Out) → Prop
  | _, [] => True
  | a, (op, out) :: h => a.answers op out ∧ SpecRun (a.next op out) h

mutual
/-- structural equality test on values -/
def Val.beq : Val → Val → Bool
  | .none, .none => true
  | .bool a, .bool b => a == b
  | .int a, .int b => a == b
  | .num a, .num b => a == b
  | .str a, .str b => a == b
  | .list a, .list b => Val.beqList a b
  | .tuple a, .tuple b => Val.beqList a b
  | .dict a, .dict b => Val.beqKV a b
  | _, _ => false
def Val.beqList : List Val → List Val → Bool
  | [], [] => true
  | x :: xs, y :: ys => Val.beq x y && Val.beqList xs ys
  | _, _ => false
def Val.beqKV : List (String × Val) → List (String × Val) → Bool
  | [], [] => true
  | (k, x) :: xs, (l, y) :: ys => k == l && Val.beq x y && Val.beqKV xs ys
  | _, _ => false
end

def optBeq : Option Val → Option Val → Bool
  | none, none => true
  | some a, some b => Val.beq a b
  | _, _ => false

/-- two dicts hold the same record (as maps; the order of the keys does not matter) -/
def mapEq (a b : List (String × Val)) : Bool := (keys a ++ keys b).all (fun k => optBeq (aget k a) (aget k b))

def sameSet (a b : List String) : Bool := a.all (fun x => b.contains x) && b.all (fun x => a.contains x)

def sameVals (a b : List Val) : Bool := a.all (fun x => b.any (Val.beq x)) && b.all (fun x => a.any (Val.beq x))

def isErr (e : Err) : Out → Bool
  | .error e' => e' == e
  | _ => false

def isNoneOut : Out → Bool
  | .none => true
  | _ => false

def isVal (v : Val) : Out → Bool
  | .val v' => Val.beq v' v
  | _ => false

/-- the job dict of `(sid, pid)` in the finite map -/
def eJob (e : Store) (sid pid : String) : Option Job := (aget sid e.data).bind (fun S => aget pid S.jobs)

def eJobOf (e : Store) (jid : String) : Option Job :=
  match parseJobId jid with
  | some (sid, pid) => eJob e sid pid
  | none => none

def checkStore (e : Store) (jid : String) (out : Out) : Bool :=
  match parseJobId jid with
  | none => isErr .valueError out
  | some (sid, pid) =>
    match eJob e sid pid with
    | none => isErr .keyError out
    | some _ => isNoneOut out

def notNone (v : Val) : Option Val := if isNone v then none else some v

/-- the value a job contributes to `load_metadata_from_all_jobs(…, key)` -/
def metaCand (key : String) (j : Job) : Option Val :=
  match aget "metadata" j with
  | some (Val.dict m) => (aget key m).bind notNone
  | _ => none

/-- does the answer `out` to the call `op` agree with the finite map `e` ? -/
def checkAns (e : Store) : Op → Out → Bool
  | .createSearch, out =>
    match out with
    | .id sid => (aget sid e.data).isNone
    | _ => false
  | .createJob sid, out =>
    match aget sid e.data with
    | none => isErr .keyError out
    | some S =>
      match out with
      | .id x =>
        match parseJobId x with
        | some (s, p) => s == sid && (aget p S.jobs).isNone
        | none => false
      | _ => false
  | .storeJob jid _ _, out => checkStore e jid out
  | .storeJobIn jid _ _, out => checkStore e jid out
  | .storeJobOut jid _, out => checkStore e jid out
  | .storeJobStatus jid _, out => checkStore e jid out
  | .storeJobMetadata jid _ _, out =>
    match parseJobId jid with
    | none => isErr .valueError out
    | some (sid, pid) =>
      match eJob e sid pid with
      | none => isErr .keyError out
      | some j =>
        match aget "metadata" j with
        | none => isErr .keyError out
        | some (.dict _) => isNoneOut out
        | some _ => isErr .typeError out
  | .storeSearchValue sid _ _, out =>
    match aget sid e.data with
    | none => isErr .keyError out
    | some _ => isNoneOut out
  | .loadAllSearchIds, out =>
    match out with
    | .ids l => sameSet l (keys e.data)
    | _ => false
  | .loadAllJobIds sid, out =>
    match aget sid e.data with
    | none => isErr .keyError out
    | some S =>
      match out with
      | .ids l => sameSet l ((keys S.jobs).map (jobId sid))
      | _ => false
  | .loadSearch sid, out =>
    match aget sid e.data with
    | none => isErr .keyError out
    | some S =>
      match out with
      | .val (.dict kvs) =>
        (keys kvs ++ keys S.jobs).all (fun pid =>
          match aget pid kvs, aget pid S.jobs with
          | some (.dict kv), some j => mapEq kv j
          | none, none => true
          | _, _ => false)
      | _ => false
  | .loadJob jid, out =>
    match parseJobId jid with
    | none => isErr .valueError out
    | some (sid, pid) =>
      match eJob e sid pid with
      | none => isErr .keyError out
      | some j =>
        match out with
        | .val (.dict kvs) => mapEq kvs j
        | _ => false
  | .loadJobStatus jid, out =>
    match parseJobId jid with
    | none => isErr .valueError out
    | some (sid, pid) =>
      match eJob e sid pid with
      | none => isErr .keyError out
      | some j =>
        match aget "status" j with
        | none => isErr .keyError out
        | some v => isVal v out
  | .loadSearchValue sid key, out =>
    match aget sid e.data with
    | none => isErr .keyError out
    | some S =>
      if reservedKey key then true
      else match aget key S.free with
        | none => isErr .keyError out
        | some v => isVal v out
  | .loadOutFromAllJobs sid, out =>
    match aget sid e.data with
    | none => isErr .keyError out
    | some S =>
      match out with
      | .vals l => sameVals l (S.jobs.filterMap (fun pj => (aget "out" pj.2).bind notNone))
      | _ => true
  | .loadMetadataFromAllJobs sid key, out =>
    match aget sid e.data with
    | none => isErr .keyError out
    | some S =>
      match out with
      | .vals l => sameVals l (S.jobs.filterMap (fun pj => metaCand key pj.2))
      | _ => true
  | .loadJobs jids, out =>
    match out with
    | .val (.dict d) =>
      (keys d ++ jids).all (fun jid =>
        match aget jid d with
        | none => !jids.contains jid
        | some (.dict kv) => jids.contains jid && (match eJobOf e jid with | some j => mapEq kv j | none => false)
        | some _ => false)
    | _ => true

/-- the finite map after a call that answered `out` (mirrors `Spec.next`) -/
def enext (e : Store) : Op → Out → Store
  | .createSearch, .id sid => { e with data := aset sid ⟨0, [], []⟩ e.data }
  | .createJob _, .id jid =>
    match parseJobId jid with
    | some (sid, pid) =>
      match aget sid e.data with
      | some S => { e with data := aset sid { S with jobs := aset pid newJob S.jobs } e.data }
      | none => e
    | none => e
  | .storeJob jid key v, .none => (storeJob e jid key v).1
  | .storeJobIn jid args kwargs, .none => (storeJob e jid "in" (.dict [("args", args), ("kwargs", kwargs)])).1
  | .storeJobOut jid v, .none => (storeJob e jid "out" v).1
  | .storeJobStatus jid v, .none => (storeJob e jid "status" v).1
  | .storeJobMetadata jid key v, .none => (storeJobMetadata e jid key v).1
  | .storeSearchValue sid key v, .none =>
    match aget sid e.data with
    | some S => { e with data := aset sid { S with free := aset key v S.free } e.data }
    | none => e
  | _, _ => e

def checkHistoryFrom : Store → List (Op × Out) → Bool
  | _, [] => true
  | e, (op, out) :: h => checkAns e op out && checkHistoryFrom (enext e op out) h

/-- the verified checker -/
def checkHistory (h : List (Op × Out)) : Bool := checkHistoryFrom Store.init h

/-- (diagnostics only) index of the first answer the map does not allow -/
def firstBadAnswer : Store → List (Op × Out) → Nat → Option Nat
  | _, [], _ => none
  | e, (op, out) :: h, i => if checkAns e op out then firstBadAnswer (enext e op out) h (i + 1) else some i

/-! ### several clients, atomic method calls -/

/-- clients' remaining programs, the shared store, and what each client has received so far -/
structure Conc where
  store : Store
  progs : List (List Op)
  outs : List (List Out)
  deriving Repr

def Conc.start (s : Store) (progs : List (List Op)) : Conc := ⟨s, progs, progs.map (fun _ => [])⟩

/-- client `i` performs its next call (atomically); nothing happens if it has none left -/
def Conc.step (c : Conc) (i : Nat) : Conc :=
  match c.progs[i]? with
  | some (op :: rest) =>
    let (s1, o) := DH.Storage.step c.store op
    { store := s1, progs := c.progs.set i rest, outs := c.outs.set i ((c.outs.getD i []) ++ [o]) }
  | _ => c

/-- a schedule = which client moves next -/
def Conc.run (c : Conc) : List Nat → Conc
  | [] => c
  | i :: sched => (c.step i).run sched

/-- the sequential history a schedule produces: the calls in the order they were served,
tagged with the client that issued them -/
def linearize : List (List Op) → List Nat → List (Nat × Op)
  | _, [] => []
  | progs, i :: sched =>
    match progs[i]? with
    | some (op :: rest) => (i, op) :: linearize (progs.set i rest) sched
    | _ => linearize progs sched

/-! ### `create_new_job` split at the point where another thread could run
(between reading the counter and incrementing it) -/

/-- first half: `partial_id = self._data[search_id]["job_id_counter"]` -/
def createJobRead (s : Store) (sid : String) : Option Nat :=
  (aget sid s.data).map (·.counter)

/-- second half, with the value read earlier: build the id, `+= 1` on the *current* counter,
insert the job under the id built from the stale value -/
def createJobCommit (s : Store) (sid : String) (seen : Nat) : Store × Out :=
  match aget sid s.data with
  | none => (s, .error .keyError)
  | some S =>
    let pid := Nat.repr seen
    ({ s with data := aset sid { S with counter := S.counter + 1, jobs := aset pid newJob S.jobs } s.data },
     .id (jobId sid pid))

/-! ### `NullStorage` (stores nothing; only its identifiers are of interest) -/

structure NullStore where
  jobCounter : Nat
  deriving Repr

def nullStep (s : NullStore) : Op → NullStore × Out
  | .createSearch => (s, .id "0")
  | .createJob sid => (⟨s.jobCounter + 1⟩, .id (jobId sid (Nat.repr s.jobCounter)))
  | .loadAllSearchIds => (s, .ids ["0"])
  | .loadAllJobIds _ => (s, .ids ((List.range s.jobCounter).map (fun i => jobId "0" (Nat.repr i))))
  | .loadSearch _ => (s, .val .none)
  | .loadJob _ => (s, .val .none)
  | .loadSearchValue _ _ => (s, .val .none)
  | .loadMetadataFromAllJobs _ _ => (s, .vals [])
  | .loadOutFromAllJobs _ => (s, .vals [])
  | .loadJobs _ => (s, .val (.dict []))
  | .loadJobStatus _ => (s, .val (.int 0))
  | _ => (s, .none)

end DH.Storage
