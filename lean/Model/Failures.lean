import Model.Dump

/-!
# Model of the failure handling between the run-function and the surrogate (C06)

Code modelled (deephyper 0.9.3 + the `fix:` commits of branch `fix-g3`):

* `Evaluator._on_done` non-finite test, scalar and tuple/list  — `DH.Dump.onDoneObjective`
* `CBO._tell`: numbers are negated, `'F…'` becomes `"F"` or is dropped (`filter_failures="ignore"`)
* `Optimizer._tell`: `yi.extend`, failures do not count toward `_n_initial_points`, fit when `<= 0`
* `Optimizer._filter_failures` (`mean` / `max` / anything else = untouched, `ExhaustedFailures`),
  per objective (`axis=0`, fix 3); used by the fit and by the constant-liar `ask`
* `RegularizedEvolution._tell`: string objectives are skipped, `deque(maxlen=population_size)`
* `_on_done` → `storage.store_job_out` → `gather_other_jobs_done` of another evaluator on the same
  search: what is stored is the objective AFTER the non-finite rewrite (`onDoneStore`, `otherView`)
* the `cache_` of the constant-liar `Optimizer.ask` and the `CBO._ask` / `CBO._tell` calls that
  reset it (`optAsk`, `cboAsk`, `cboTellCache`, `runCache`)

Numbers that reach the optimizer are `Num` (a rational or a non-finite marker) so that the
statement "no non-finite value reaches the surrogate" is not true by typing.
Scaling / scalarisation (`objective_scaler`, `MoScalarFunction`) are numerical library code: the
scaled values of the non-failed entries are an environment input `scaled`.

Not modelled: dict-valued objectives in `CBO._tell` (reported as `unsupported`), the `"ps"`
acquisition variants (objective, time) pairs, `_sample` sub-sampling, `moo_upper_bounds` penalties.

Core Lean only (imports `Model/Dump.lean`).
-/

namespace DH.Failures
open DH.Dump

/-- a Python number as the optimizer receives it -/
inductive Num
  | fin (q : Rat)
  | nf (k : NonFin)
  deriving DecidableEq, Repr

def Num.neg : Num → Num
  | .fin q => .fin (-q)
  | .nf .nan => .nf .nan
  | .nf .posInf => .nf .negInf
  | .nf .negInf => .nf .posInf

def Num.isFinite : Num → Bool
  | .fin _ => true
  | .nf _ => false

/-- an element of `opt_y` / `Optimizer.yi` -/
inductive Y
  | val (x : Num)          -- single objective
  | vec (xs : List Num)    -- multiple objectives
  | fail                   -- `"F"`
  deriving DecidableEq, Repr

def Y.isFinite : Y → Bool
  | .val x => x.isFinite
  | .vec xs => xs.all Num.isFinite
  | .fail => true

/-- `filter_failures` as the optimizer sees it (`CBO` maps its `"min"` to `"max"`: objectives
are negated) -/
inductive Policy | mean | max | ignore
  deriving DecidableEq, Repr

inductive TellErr
  | emptyString    -- `np.negative("")` / `""[0]`
  | notIterable    -- objective `None`
  | unsupported    -- dict objective: not modelled
  deriving DecidableEq, Repr

/-- `"F" == s[0]` for a non-empty `s` -/
def firstIsF (s : String) : Bool := s.toList.head? == some 'F'

def asNumber : Val → Option Num
  | .num q => some (.fin q)
  | .nonfin k => some (.nf k)
  | _ => none

/-- `any(type(o) is str and "F" == o[0] for o in obj)` over a tuple/list, left to right -/
def anyFail : List Val → Except TellErr Bool
  | [] => .ok false
  | .str s :: r => if s = "" then .error .emptyString else if firstIsF s then .ok true else anyFail r
  | _ :: r => anyFail r

def failOut (p : Policy) : Option Y := if p = .ignore then none else some .fail

/-- one iteration of the loop of `CBO._tell`: `none` = nothing appended to `opt_X/opt_y` -/
def cboTellOne (p : Policy) (obj : Val) : Except TellErr (Option Y) :=
  match obj with
  | .num q => .ok (some (.val (.fin (-q))))
  | .nonfin k => .ok (some (.val (Num.neg (.nf k))))
  | .str s =>
    if s = "" then .error .emptyString
    -- `"F" == obj[0]`, or (iterating the characters) any character equal to "F"
    else if firstIsF s || s.toList.any (· == 'F') then .ok (failOut p)
    else .ok none
  | .list l =>
    match optMap asNumber l with
    | some xs => .ok (some (.vec (xs.map Num.neg)))
    | none =>
      match anyFail l with
      | .error e => .error e
      | .ok true => .ok (failOut p)
      | .ok false => .ok none
  | .none => .error .notIterable
  | .dict _ => .error .unsupported

/-- the whole loop: what is handed to `Optimizer.tell` (positions in `results` kept for `opt_X`) -/
def cboTell (p : Policy) : List Val → Except TellErr (List Y)
  | [] => .ok []
  | o :: r =>
    match cboTellOne p o with
    | .error e => .error e
    | .ok y =>
      match cboTell p r with
      | .error e => .error e
      | .ok ys => .ok (match y with | some y => y :: ys | none => ys)

/-! ### `Optimizer._filter_failures`

A scalar and a 1-vector are not distinguished here (`np.mean/np.max(axis=0)` treat them alike):
an entry is `none` (= `"F"`) or the list of its coordinates. -/

inductive OptErr
  | exhausted            -- `ExhaustedFailures`
  | ragged               -- NumPy: inhomogeneous shape
  | nonFiniteToSurrogate -- a NaN/inf would be handed to `est.fit`
  | markerToSurrogate    -- an `"F"` would be handed to `est.fit`
  | envContract          -- the environment's `scaled` list has the wrong length
  deriving DecidableEq, Repr

def sumCols : List (List Rat) → List Rat
  | [] => []
  | [v] => v
  | v :: r => List.zipWith (· + ·) v (sumCols r)

def maxCols : List (List Rat) → List Rat
  | [] => []
  | [v] => v
  | v :: r => List.zipWith (fun a b => if a ≤ b then b else a) v (maxCols r)

/-- `np.mean(vs, axis=0)` -/
def meanCols (vs : List (List Rat)) : List Rat := (sumCols vs).map (· / (vs.length : Rat))

def sameLength (vs : List (List Rat)) : Bool :=
  match vs with
  | [] => true
  | v :: r => r.all (fun w => w.length == v.length)

def filterFailures (p : Policy) (maxFailures : Nat) (yi : List (Option (List Rat))) :
    Except OptErr (List (Option (List Rat))) :=
  match p with
  | .ignore => .ok yi
  | _ =>
    let good := yi.filterMap id
    if good.isEmpty then
      if yi.length ≥ maxFailures then .error .exhausted
      else .ok (yi.map (fun _ => some [0]))     -- `yi_failed_value = 0`
    else if !sameLength good then .error .ragged
    else
      let v := if p = .mean then meanCols good else maxCols good
      .ok (yi.map (fun y => match y with | some y => some y | none => some v))

/-- the code before fix 3: one mean / max over all objectives at once -/
def filterFailuresOld (p : Policy) (maxFailures : Nat) (yi : List (Option (List Rat))) :
    Except OptErr (List (Option (List Rat))) :=
  match p with
  | .ignore => .ok yi
  | _ =>
    let good := yi.filterMap id
    if good.isEmpty then
      if yi.length ≥ maxFailures then .error .exhausted
      else .ok (yi.map (fun _ => some [0]))
    else
      let flat := good.flatten
      let v := if p = .mean then meanCols (flat.map (fun x => [x])) else maxCols (flat.map (fun x => [x]))
      .ok (yi.map (fun y => match y with | some y => some y | none => some v))

/-! ### `Optimizer._tell` -/

structure Opt where
  nInit : Int        -- `_n_initial_points`
  yi : List Y        -- `yi`
  deriving Repr, DecidableEq

def isOk : Y → Bool
  | .fail => false
  | _ => true

/-- `len([v for v in y if v != "F"])` -/
def countOk (ys : List Y) : Nat := (ys.filter isOk).length

/-- raw coordinates of an entry for the constant-liar `_filter_failures(opt.yi)`;
`none` when a non-finite number is present -/
def coords : Y → Option (Option (List Rat))
  | .fail => some none
  | .val (.fin q) => some (some [q])
  | .val (.nf _) => none
  | .vec xs => (optMap (fun (x : Num) => match x with | .fin q => some q | .nf _ => none) xs).map some

/-- put the environment's scaled values back at the non-failed positions -/
def mergeScaled : List Y → List Rat → Option (List (Option (List Rat)))
  | [], [] => some []
  | [], _ :: _ => none
  | .fail :: r, s => (mergeScaled r s).map (none :: ·)
  | _ :: _, [] => none
  | _ :: r, q :: s => (mergeScaled r s).map (some [q] :: ·)

/-- an entry of the final target list must be a plain number -/
def scalarOf : Option (List Rat) → Option Rat
  | some [q] => some q
  | _ => none

/-- what `est.fit` receives as `y` when the model is (re)fitted on `yi` -/
def fitInput (p : Policy) (maxFailures : Nat) (yi : List Y) (scaled : List Rat) :
    Except OptErr (List Rat) :=
  if !yi.all Y.isFinite then .error .nonFiniteToSurrogate
  else
    match mergeScaled yi scaled with
    | none => .error .envContract
    | some ys =>
      match filterFailures p maxFailures ys with
      | .error e => .error e
      | .ok zs =>
        match optMap scalarOf zs with
        | some out => .ok out
        | none => .error .markerToSurrogate

/-- `Optimizer._tell(x, y)` for a batch: bookkeeping, then the fit input when a fit happens
(`scaled` = environment, only read when it does) -/
def optTell (p : Policy) (maxFailures : Nat) (st : Opt) (ys : List Y) (scaled : List Rat) :
    Except OptErr (Opt × Option (List Rat)) :=
  let st' : Opt := { nInit := st.nInit - countOk ys, yi := st.yi ++ ys }
  if st'.nInit ≤ 0 then
    match fitInput p maxFailures st'.yi scaled with
    | .error e => .error e
    | .ok y => .ok (st', some y)
  else .ok (st', none)

/-- `CBO._tell(results)` followed by `Optimizer.tell`: nothing is told when `opt_y` is empty -/
def searchTell (p : Policy) (maxFailures : Nat) (st : Opt) (objs : List Val) (scaled : List Rat) :
    Except (TellErr ⊕ OptErr) (Opt × Option (List Rat)) :=
  match cboTell p objs with
  | .error e => .error (.inl e)
  | .ok [] => .ok (st, none)
  | .ok ys =>
    match optTell p maxFailures st ys scaled with
    | .error e => .error (.inr e)
    | .ok r => .ok r

/-- a whole history of told batches (objectives as `_on_done` left them), each with the
environment's scaled values; the state after the last batch and every fit input -/
def runTells (p : Policy) (maxFailures : Nat) :
    Opt → List (List Val × List Rat) → Except (TellErr ⊕ OptErr) (Opt × List (List Rat))
  | st, [] => .ok (st, [])
  | st, (objs, scaled) :: rest =>
    match searchTell p maxFailures st objs scaled with
    | .error e => .error e
    | .ok (st', fit) =>
      match runTells p maxFailures st' rest with
      | .error e => .error e
      | .ok (stf, fits) => .ok (stf, match fit with | some f => f :: fits | none => fits)

/-! ### what the storage keeps, and what another evaluator attached to the same search reads

`Evaluator._on_done` first rewrites a non-finite objective of the local `HPOJob` to the marker and
THEN calls `storage.store_job_out(job.id, job.objective)`: the storage receives the rewritten
objective.  Every other evaluator attached to the same storage and `search_id` (the decentralised
set-up, or a search restarted on an existing storage) reads it back in `gather_other_jobs_done`,
which rebuilds a job with `job.set_output(job_data["out"])` and does not go through `_on_done`. -/

/-- the two results of `_on_done` for an `HPOJob` whose objective is `o` -/
structure Done where
  job : Val       -- `job.objective` of the local job afterwards (told to its own search, dumped)
  stored : Val    -- the `"out"` entry of the job in the storage
  deriving Repr

def onDoneStore (o : Val) : Done :=
  let o' := onDoneObjective o
  { job := o', stored := o' }

/-- the other order ("persist first, then post-process"): NOT the code, kept as a witness of what
the order of the two blocks of `_on_done` is responsible for -/
def onDoneStoreEarly (o : Val) : Done := { job := onDoneObjective o, stored := o }

/-- `gather_other_jobs_done` for one job of another evaluator: nothing is reported while
`job_data["out"] is None`; otherwise the objective of the rebuilt job (`set_output(out)`) -/
def otherObjective (stored : Val) : Except StdErr (Option Val) :=
  match stored with
  | .none => .ok none
  | v =>
    match standardizeOutput v with
    | .error e => .error e
    | .ok (o, _) => .ok (some o)

/-- the objectives another evaluator gathers for jobs whose `"out"` entries are `stored` -/
def otherView : List Val → Except StdErr (List Val)
  | [] => .ok []
  | v :: r =>
    match otherObjective v with
    | .error e => .error e
    | .ok x =>
      match otherView r with
      | .error e => .error e
      | .ok xs => .ok (match x with | some o => o :: xs | none => xs)

/-! ### the cache of the constant-liar `ask`, and `CBO._ask` / `CBO._tell` around it

`Optimizer.ask(n_points, strategy)` (constant-liar strategies, fitted model) returns
`cache_[(n_points, strategy)]` when present, else computes a batch (environment: `fresh`) and sets
`cache_ = {(n_points, strategy): batch}`.  `Optimizer.tell` and `Optimizer.update_next` both reset
`cache_ = {}`.  `CBO._ask` calls `update_next` first when something was asked since the last tell;
`CBO._tell` calls `Optimizer.tell` when something is told and `update_next` when nothing is
(every result an ignored failure, or an empty batch). -/

structure AskCache (κ β : Type) where
  entry : Option (κ × β)     -- `cache_` never holds more than one entry
  asked : Bool               -- `CBO._asked_since_tell`
  next : β                   -- `[_next_x]`: the single point computed by the last `tell` / `update_next`

def AskCache.init {κ β : Type} (next0 : β) : AskCache κ β := ⟨none, false, next0⟩

/-- `Optimizer.ask(n_points, strategy)`: the batch, and whether it came from the cache.
`single` = (`n_points == 1`): that path returns `[_next_x]` and does not look at the cache. -/
def optAsk {κ β : Type} [DecidableEq κ] (c : AskCache κ β) (single : Bool) (key : κ) (fresh : β) :
    AskCache κ β × β × Bool :=
  if single then (c, c.next, false)
  else
    match c.entry with
    | some (k, b) => if k = key then (c, b, true) else ({ c with entry := some (key, fresh) }, fresh, false)
    | none => ({ c with entry := some (key, fresh) }, fresh, false)

/-- `Optimizer.tell` / `Optimizer.update_next`: `cache_ = {}` and a recomputed `_next_x`
(environment: `newNext`) -/
def optReset {κ β : Type} (c : AskCache κ β) (newNext : β) : AskCache κ β :=
  { c with entry := none, next := newNext }

/-- `CBO._ask(n)`; `refreshed` = the `_next_x` an `update_next` would compute now -/
def cboAsk {κ β : Type} [DecidableEq κ] (c : AskCache κ β) (single : Bool) (key : κ) (fresh refreshed : β) :
    AskCache κ β × β × Bool :=
  let c1 := if c.asked then optReset c refreshed else c
  let (c2, b, hit) := optAsk c1 single key fresh
  ({ c2 with asked := true }, b, hit)

/-- `CBO._tell(results)` as far as the next proposals go: `told` = "`opt_y` is not empty"; both
branches (`Optimizer.tell` / `update_next`) drop the cached batch and recompute `_next_x` -/
def cboTellCache {κ β : Type} (c : AskCache κ β) (_told : Bool) (newNext : β) : AskCache κ β :=
  { optReset c newNext with asked := false }

/-- one step of a search seen from the cache: an ask (with the batch / the next point the
optimizer would compute now) or a tell of some results under a policy -/
inductive CacheOp (κ β : Type)
  | ask (single : Bool) (key : κ) (fresh refreshed : β)
  | tell (p : Policy) (objs : List Val) (newNext : β)

/-- a whole sequence of `CBO.ask` / `CBO.tell`: for every ask, the batch returned and whether it
was a cached one -/
def runCache {κ β : Type} [DecidableEq κ] : AskCache κ β → List (CacheOp κ β) → List (β × Bool)
  | _, [] => []
  | c, .ask single key fresh refreshed :: r =>
    let (c', b, hit) := cboAsk c single key fresh refreshed
    (b, hit) :: runCache c' r
  | c, .tell p objs newNext :: r =>
    let told := match cboTell p objs with | .ok (_ :: _) => true | _ => false
    runCache (cboTellCache c told newNext) r

/-- the same sequence for an optimizer WITHOUT any cache: a batch of several points is computed at
the ask; a single point is the one computed by the last tell, or refreshed by the ask itself when
something was asked since -/
def specCache {κ β : Type} : Bool → β → List (CacheOp κ β) → List β
  | _, _, [] => []
  | asked, next, .ask single _ fresh refreshed :: r =>
    let next' := if asked then refreshed else next
    (if single then next' else fresh) :: specCache true next' r
  | _, _, .tell _ _ newNext :: r => specCache false newNext r

/-! ### `RegularizedEvolution._tell` -/

/-- `deque(maxlen=cap).append` -/
def dequeAppend {α : Type} (cap : Nat) (q : List α) (x : α) : List α :=
  let q' := q ++ [x]
  q'.drop (q'.length - cap)

/-- population of `(configuration id, objective)`; string objectives are skipped -/
def regevoTell (cap : Nat) (pop : List (Nat × Val)) : List (Nat × Val) → List (Nat × Val)
  | [] => pop
  | (c, o) :: r => if isStr o then regevoTell cap pop r else regevoTell cap (dequeAppend cap pop (c, o)) r

end DH.Failures
