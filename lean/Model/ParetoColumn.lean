import Model.Pareto

/-!
# Model of the `pareto_efficient` column (`deephyper/hpo/_search.py`)

Which columns of a results table are the objectives, which rows are successful evaluations, and how the mask
of `non_dominated_set` (model: `Model/Pareto.lean`) is written back.  Core Lean only.
-/

namespace DH.Pareto

/-! ### the `pareto_efficient` column of a results table
(`Search.extend_results_with_pareto_efficient_indicator`)

```
objective_columns = [col for col in df.columns if col.startswith("objective")]
if len(objective_columns) > 1:
    if is_string_dtype(df[objective_columns[0]]): ok = ~df[objective_columns[0]].str.startswith("F")
    else:                                         ok = all True
    objectives = -df.loc[ok, objective_columns].values.astype(float)
    df["pareto_efficient"] = False; df.loc[ok, "pareto_efficient"] = non_dominated_set(objectives)
```
-/

/-- a column name, character by character -/
abbrev Name := List Char

def objPrefix : Name := ['o', 'b', 'j', 'e', 'c', 't', 'i', 'v', 'e']

/-- `col.startswith("objective")` -/
def isObjectiveName (name : Name) : Bool := objPrefix.isPrefixOf name

/-- what the step can read in a cell: a number, a failure marker (a string starting with `F`),
anything else (text, an empty cell) -/
inductive Cell where
  | num (q : Rat)
  | fail
  | txt

/-- `df[objective_columns]` of one row: the cells under the selected column names, in column order -/
def project : List Name → List Cell → List Cell
  | h :: hs, c :: cs => if isObjectiveName h then c :: project hs cs else project hs cs
  | _, _ => []

/-- positions of the selected columns (reported by the driver) -/
def objectiveCols (header : List Name) : List Nat :=
  (List.range header.length).filter (fun i => isObjectiveName (header.getD i []))

/-- `~df[objective_columns[0]].str.startswith("F")` (all true when that column holds numbers only) -/
def rowOk : List Cell → Bool
  | Cell.fail :: _ => false
  | _ => true

/-- `-row.astype(float)`; `none` = the conversion raises -/
def negVec : List Cell → Option Vec
  | [] => some []
  | Cell.num q :: r => (negVec r).map (fun v => (-q) :: v)
  | _ :: _ => none

def negVecs : List (List Cell) → Option (List Vec)
  | [] => some []
  | r :: rs => match negVec r, negVecs rs with
    | some v, some vs => some (v :: vs)
    | _, _ => none

/-- `col = False; col[ok] = mask` -/
def scatter : List Bool → List Bool → List Bool
  | [], _ => []
  | true :: r, m :: ms => m :: scatter r ms
  | true :: r, [] => false :: scatter r []
  | false :: r, ms => false :: scatter r ms

inductive ColumnOut where
  | noColumn                     -- fewer than two objective columns: the table is left as it is
  | raises                       -- an objective cell of a successful row is not a number
  | column (flags : List Bool)
  deriving DecidableEq

/-- the whole step: header → objective columns → successful rows → negate → sweep → scatter.
`order` is what `argsort` returned inside `non_dominated_set`. -/
def paretoColumn (header : List Name) (rows : List (List Cell)) (order : List Nat) : ColumnOut :=
  if (header.filter isObjectiveName).length ≤ 1 then .noColumn
  else
    let objs := rows.map (project header)
    match negVecs (objs.filter rowOk) with
    | none => .raises
    | some vecs => .column (scatter (objs.map rowOk) (ndsMask vecs order))

/-- The columns the evaluator writes (`Evaluator.dump_jobs_done_to_csv`): `p:<hyperparameter name>`,
`objective` or `objective_<i>`, `job_id`, `job_status`, `m:<metadata key>`, and `pareto_efficient` once the
step has run.  Hyperparameter names and metadata keys are ANY strings (chosen by the user). -/
inductive ColKind where
  | param (name : Name)
  | metadata (key : Name)
  | objective
  | objectiveI (i : Nat)
  | jobId
  | jobStatus
  | paretoEfficient

def ColKind.render : ColKind → Name
  | .param s => 'p' :: ':' :: s
  | .metadata s => 'm' :: ':' :: s
  | .objective => objPrefix
  | .objectiveI i => objPrefix ++ '_' :: Nat.toDigits 10 i
  | .jobId => ['j', 'o', 'b', '_', 'i', 'd']
  | .jobStatus => ['j', 'o', 'b', '_', 's', 't', 'a', 't', 'u', 's']
  | .paretoEfficient => ['p', 'a', 'r', 'e', 't', 'o', '_', 'e', 'f', 'f', 'i', 'c', 'i', 'e', 'n', 't']

def ColKind.isObjective : ColKind → Bool
  | .objective | .objectiveI _ => true
  | _ => false

end DH.Pareto
