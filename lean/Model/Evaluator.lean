/-!
# Model of `deephyper/evaluator/_evaluator.py` — task / id bookkeeping of `Evaluator`

Modelled (after the fix `fix: Evaluator.close() forgets its cancelled tasks …`):

* `submit`  = `set_event_loop` + `_create_tasks`
* `gather`  = `gather` + `_await_at_least_n_tasks` + `process_local_tasks_done`
* `close`   = `close` + `_await_cancelling_of_running_tasks`
* `dump`    = `dump_jobs_done_to_csv` (which rows are written, `jobs_done` reset; both CSV formats)
* the counters `num_jobs_submitted` / `num_jobs_gathered` (offset 0: `set_maximum_num_jobs_submitted`
  belongs to C03)

State mirrors the attributes of the class: `jobs`, `_tasks_running`, `job_id_submitted`,
`job_id_gathered`, `jobs_done`, `loop` (`loopOpen`, and a generation counter `loopGen` of the loop a
task was created on), `_start_dumping`, `_columns_dumped is not None`, the storage's job counter
`nextId` (job id `"<search>.<k>"` is `k`).  `Job` objects are shared mutable references in Python;
here a job is referenced by its id and its record lives in `jobs`.
`_tasks_done` / `_tasks_pending` are `[]` at every method boundary and are local here.

Two **history variables** are added (never read by the model's control flow):
`delivered` (every job ever handed back, with how) and `dumped` (every row ever written).

Environment (asyncio, the executors) is explicit input of the operations:

* `started`  — the jobs whose task acquired the worker semaphore during this call (`READY → RUNNING`)
* `waits`    — what the successive `asyncio.wait` calls of `_await_at_least_n_tasks` returned as
               `done`, each as the list of job ids in the iteration order of that set
* `finished` — at `close`: the tasks of `done` that are *not* cancelled (they had completed before)

The run-function is a parameter `f : C → O` (`O` = the standardised output kept in `job.output`).
Errors of the real code are outputs (`Err`).  Core Lean only (no imports).
-/

namespace DH.Evaluator

inductive Status
  | ready | running | done | cancelled
  deriving DecidableEq, Repr

/-- how a job was accounted for -/
inductive Via
  | gather | close
  deriving DecidableEq, Repr

inductive Err
  /-- `AttributeError`: `self.loop` is `None` (a sized gather before any submit or after close) -/
  | noLoop
  /-- `ValueError("No jobs pending, call Evaluator.submit(jobs)!")` -/
  | noJobs
  /-- `RuntimeError("Event loop is closed")`: a task of a closed loop is waited on -/
  | loopClosed
  /-- `ValueError: list.remove(x): x not in list` inside `process_local_tasks_done` -/
  | badTask
  /-- not a behaviour of the code: the supplied `waits` do not fit the `while` loop -/
  | envStuck
  deriving DecidableEq, Repr

structure JobRec (C O : Type) where
  id : Nat
  cfg : C
  out : Option O
  status : Status
  deriving DecidableEq, Repr

/-- an `asyncio.Task` of `_tasks_running`: the job it executes, the loop generation it lives on -/
structure Task where
  id : Nat
  gen : Nat
  deriving DecidableEq, Repr

structure Params (C O : Type) where
  /-- the run-function followed by `set_output` (standardised output) -/
  f : C → O
  /-- `_job_class is HPOJob` -/
  hpo : Bool
  /-- `HPOJob.set_output("F_CANCELLED")` -/
  cancelOut : O
  /-- `type(result["objective"]) is str` (CSV header rule of the HPO format) -/
  isStr : O → Bool

structure Ev (C O : Type) where
  nextId : Nat
  jobs : List (JobRec C O)
  running : List Task
  submitted : List Nat
  gathered : List Nat
  jobsDone : List Nat
  loopGen : Nat
  loopOpen : Bool
  startDumping : Bool
  columns : Bool
  delivered : List (Nat × Via)
  dumped : List Nat
  deriving Repr

inductive Op (C : Type)
  | submit (cfgs : List C)
  | gather (all : Bool) (k : Nat) (started : List Nat) (waits : List (List Nat))
  | close (finished : List Nat)
  | dump (flush : Bool)
  deriving Repr

inductive Out (C O : Type)
  | unit
  /-- return value of `gather`, in the order returned -/
  | jobs (l : List (JobRec C O))
  /-- rows appended to the CSV file by this `dump_jobs_done_to_csv` -/
  | rows (l : List (JobRec C O))
  | error (e : Err)
  deriving DecidableEq, Repr

variable {C O : Type}

/-- a newly constructed evaluator -/
def init : Ev C O :=
  { nextId := 0, jobs := [], running := [], submitted := [], gathered := [], jobsDone := [],
    loopGen := 0, loopOpen := false, startDumping := false, columns := false,
    delivered := [], dumped := [] }

def numSubmitted (s : Ev C O) : Nat := s.nextId
def numGathered (s : Ev C O) : Nat := s.gathered.length

def findJob (jobs : List (JobRec C O)) (id : Nat) : Option (JobRec C O) :=
  jobs.find? (fun j => j.id == id)

def updJob (jobs : List (JobRec C O)) (id : Nat) (g : JobRec C O → JobRec C O) : List (JobRec C O) :=
  jobs.map (fun j => if j.id = id then g j else j)

/-! ### submit -/

/-- one iteration of the `for args in args_list` loop of `_create_tasks` -/
def createTask (s : Ev C O) (c : C) : Ev C O :=
  { s with
    nextId := s.nextId + 1
    jobs := s.jobs ++ [{ id := s.nextId, cfg := c, out := none, status := .ready }]
    submitted := s.submitted ++ [s.nextId]
    running := s.running ++ [{ id := s.nextId, gen := s.loopGen }] }

/-- `set_event_loop`: a new loop when `self.loop is None` -/
def setEventLoop (s : Ev C O) : Ev C O :=
  if s.loopOpen then s else { s with loopOpen := true, loopGen := s.loopGen + 1 }

def submit (s : Ev C O) (cfgs : List C) : Ev C O :=
  cfgs.foldl createTask (setEventLoop s)

/-! ### gather -/

/-- `job.status = JobStatus.RUNNING` inside `execute()` for the tasks that got a worker slot -/
def markStarted (jobs : List (JobRec C O)) (started : List Nat) : List (JobRec C O) :=
  jobs.map (fun j => if started.contains j.id then { j with status := .running } else j)

/-- the `while len(self._tasks_done) < n` loop over the observed `asyncio.wait` results;
returns the final `_tasks_done` and the unused part of the environment -/
def waitLoop (n : Nat) (done : List Nat) :
    List (List Nat) → Except Err (List Nat × List (List Nat))
  | [] => if n ≤ done.length then .ok (done, []) else .error .envStuck
  | w :: ws => if n ≤ done.length then .ok (done, w :: ws) else waitLoop n w ws

def staleTask (s : Ev C O) : Bool := s.running.any (fun t => t.gen != s.loopGen)

/-- "If a user requests a batch size larger than the number of currently-running tasks,
set n to the number of tasks running" -/
def clampN (s : Ev C O) (n : Nat) : Nat := if n > s.running.length then s.running.length else n

/-- `_await_at_least_n_tasks` after the clamp → the final `_tasks_done` (ids in set-iteration order) -/
def awaitM (s : Ev C O) (m : Nat) (waits : List (List Nat)) : Except Err (List Nat) :=
  if m = s.running.length then
    -- `asyncio.wait(self._tasks_running, return_when="ALL_COMPLETED")`
    if s.running.isEmpty then .error .noJobs
    else if staleTask s then .error .loopClosed
    else match waits with
      | [w] => .ok w
      | _ => .error .envStuck
  else if staleTask s then .error .loopClosed
  else match waitLoop m [] waits with
    | .ok (done, []) => .ok done
    | .ok (_, _ :: _) => .error .envStuck
    | .error e => .error e

def awaitN (s : Ev C O) (n : Nat) (waits : List (List Nat)) : Except Err (List Nat) :=
  awaitM s (clampN s n) waits

/-- one iteration of the loop of `process_local_tasks_done` for a non-cancelled done task -/
def processOne (p : Params C O) (via : Via) (s : Ev C O) (id : Nat) :
    Except Err (Ev C O × JobRec C O) :=
  if !(s.running.any (fun t => t.id == id)) || !(s.submitted.contains id) then .error .badTask
  else match findJob s.jobs id with
    | none => .error .badTask
    | some j =>
      -- the task's result: the job with its output set; `_on_done`: RUNNING → DONE
      let j' : JobRec C O :=
        { j with out := some (p.f j.cfg), status := if j.status = .running then .done else j.status }
      .ok ({ s with
              jobs := updJob s.jobs id (fun _ => j')
              jobsDone := s.jobsDone ++ [id]
              running := s.running.eraseP (fun t => t.id == id)
              gathered := s.gathered ++ [id]
              submitted := s.submitted.erase id
              delivered := s.delivered ++ [(id, via)] }, j')

/-- `process_local_tasks_done(tasks)` (the cancelled ones are skipped by the caller's `done` list);
on an exception the state reached so far is kept -/
def processAll (p : Params C O) (via : Via) :
    Ev C O → List Nat → Ev C O × Except Err (List (JobRec C O))
  | s, [] => (s, .ok [])
  | s, id :: rest =>
    match processOne p via s id with
    | .error e => (s, .error e)
    | .ok (s', j) =>
      match processAll p via s' rest with
      | (s'', .ok js) => (s'', .ok (j :: js))
      | (s'', .error e) => (s'', .error e)

def gather (p : Params C O) (s : Ev C O) (all : Bool) (k : Nat) (started : List Nat)
    (waits : List (List Nat)) : Ev C O × Out C O :=
  let size := if all then s.running.length else k
  if size = 0 then (s, .jobs [])                       -- `process_local_tasks_done([])`
  else if !s.loopOpen then (s, .error .noLoop)
  else match awaitN s size waits with
    | .error e => (s, .error e)
    | .ok done =>
      match processAll p .gather { s with jobs := markStarted s.jobs started } done with
      | (s', .ok js) => (s', .jobs js)
      | (s', .error e) => (s', .error e)

/-! ### close -/

def active (j : JobRec C O) : Bool := j.status = .ready || j.status = .running

/-- the `for job in self.jobs: if job.status in [READY, RUNNING]` loop of `close` -/
def cancelActive (p : Params C O) (s : Ev C O) : Ev C O :=
  let ids := (s.jobs.filter active).map (·.id)
  { s with
    jobs := s.jobs.map (fun j =>
      if active j then { j with status := .cancelled, out := if p.hpo then some p.cancelOut else j.out }
      else j)
    jobsDone := s.jobsDone ++ ids
    gathered := s.gathered ++ ids
    delivered := s.delivered ++ ids.map (fun i => (i, Via.close)) }

/-- `close()`; `fixed = true` is the repaired code (`_tasks_running = []`, `job_id_submitted = []`
once the remaining jobs are recorded), `fixed = false` the pinned tree (regression witnesses only) -/
def closeWith (fixed : Bool) (p : Params C O) (s : Ev C O) (finished : List Nat) :
    Ev C O × Out C O :=
  if !s.loopOpen then (s, .unit)                                    -- `if self.loop is None: return`
  else if s.running.isEmpty then ({ s with loopOpen := false }, .unit)
  else if staleTask s then (s, .error .loopClosed)                  -- `asyncio.wait` on a closed loop's task
  else match processAll p .close s finished with
    | (s1, .error e) => (s1, .error e)
    | (s1, .ok _) =>
      let s2 := cancelActive p s1
      let s3 := if fixed then { s2 with running := [], submitted := [] } else s2
      ({ s3 with loopOpen := false }, .unit)

def close (p : Params C O) (s : Ev C O) (finished : List Nat) : Ev C O × Out C O :=
  closeWith true p s finished

/-! ### dump -/

def isSuccess (p : Params C O) (j : JobRec C O) : Bool :=
  match j.out with
  | some o => !p.isStr o
  | none => false

def lookupAll (jobs : List (JobRec C O)) (ids : List Nat) : List (JobRec C O) :=
  ids.filterMap (findJob jobs)

/-- is the header known after this call?  regular format: the first record's keys, at once;
HPO format: waits for the first non-failed job unless `flush` -/
def dumpColumns (p : Params C O) (s : Ev C O) (flush : Bool) (recs : List (JobRec C O)) : Bool :=
  if !p.hpo then true
  else if s.startDumping then s.columns
  else s.columns || flush || recs.any (isSuccess p)

def dump (p : Params C O) (s : Ev C O) (flush : Bool) : Ev C O × Out C O :=
  if s.jobsDone.isEmpty then (s, .rows [])
  else if dumpColumns p s flush (lookupAll s.jobs s.jobsDone) then
    ({ s with startDumping := true, columns := true, jobsDone := [], dumped := s.dumped ++ s.jobsDone },
      .rows (lookupAll s.jobs s.jobsDone))
  else (s, .rows [])

/-! ### the transition function -/

def step (p : Params C O) (s : Ev C O) : Op C → Ev C O × Out C O
  | .submit cfgs => (submit s cfgs, .unit)
  | .gather all k started waits => gather p s all k started waits
  | .close finished => close p s finished
  | .dump flush => dump p s flush

/-- the same with the pinned tree's `close` (kept for the regression witnesses) -/
def stepPre (p : Params C O) (s : Ev C O) : Op C → Ev C O × Out C O
  | .close finished => closeWith false p s finished
  | op => step p s op

def runWith (st : Ev C O → Op C → Ev C O × Out C O) : Ev C O → List (Op C) → Ev C O × List (Out C O)
  | s, [] => (s, [])
  | s, op :: ops =>
    let (s1, o) := st s op
    let (s2, os) := runWith st s1 ops
    (s2, o :: os)

def run (p : Params C O) : Ev C O → List (Op C) → Ev C O × List (Out C O) := runWith (step p)

/-! ### the contract of the environment (`EnvOK`) -/

def runningIds (s : Ev C O) : List Nat := s.running.map (·.id)

def statusOf (jobs : List (JobRec C O)) (id : Nat) : Option Status :=
  (findJob jobs id).map (·.status)

/-- a `done` set reported by `asyncio.wait`: duplicate-free, tasks that were passed in, each of
them had got a worker slot -/
def waitOk (s : Ev C O) (w : List Nat) : Bool :=
  decide w.Nodup && w.all (fun id => (runningIds s).contains id && statusOf s.jobs id == some .running)

def startedOk (s : Ev C O) (started : List Nat) : Bool :=
  decide started.Nodup &&
    started.all (fun id => (runningIds s).contains id && statusOf s.jobs id == some .ready)

def opOk (s : Ev C O) : Op C → Bool
  | .submit _ => true
  | .dump _ => true
  | .close finished => waitOk s finished
  | .gather all k started waits =>
    let size := if all then s.running.length else k
    if size = 0 || !s.loopOpen then started.isEmpty && waits.isEmpty  -- the loop does not run
    else match awaitN s size waits with
      | .error e => e != .envStuck && started.isEmpty                -- raised at once
      | .ok done =>
        startedOk s started && waits.all (waitOk { s with jobs := markStarted s.jobs started }) &&
        -- `ALL_COMPLETED` reports every task
        (if size ≥ s.running.length then (runningIds s).all done.contains else true)

/-- states reachable from a new evaluator by any operations under the environment contract -/
inductive Reach (p : Params C O) : Ev C O → Prop
  | init : Reach p init
  | step {s : Ev C O} (op : Op C) : Reach p s → opOk s op = true → Reach p (step p s op).1

/-- the environment contract holds along the whole run of `ops` from `s` -/
def opsOk (p : Params C O) : Ev C O → List (Op C) → Bool
  | _, [] => true
  | s, op :: ops => opOk s op && opsOk p (step p s op).1 ops

def isDump : Op C → Bool
  | .dump _ => true
  | _ => false

def submittedBy : Op C → List C
  | .submit cfgs => cfgs
  | _ => []

/-- `Reach`, remembering every configuration submitted so far (in submission order) -/
inductive Trace (p : Params C O) : Ev C O → List C → Prop
  | init : Trace p init []
  | step {s : Ev C O} {cs : List C} (op : Op C) :
      Trace p s cs → opOk s op = true → Trace p (step p s op).1 (cs ++ submittedBy op)

/-- `gather_other_jobs_done`: ids of the storage that are neither in flight nor gathered -/
def otherIds (s : Ev C O) : List Nat :=
  (List.range s.nextId).filter (fun i => !(s.submitted ++ s.gathered).contains i)

end DH.Evaluator
