import Model.Space

/-!
# Model of the declaration → space conversion and of the samplers (C10)

`deephyper/hpo/_problem.py`: `check_hyperparameter` (every branch), `convert_to_skopt_dim`,
`convert_to_skopt_space`, `HpProblem.add_hyperparameter`;
`deephyper/skopt/space/space.py`: `Dimension.rvs` / `Real.rvs` / `Categorical.rvs` (per-dimension
samplers), `Space.rvs` (flat path: one child stream per dimension; ConfigSpace path);
`deephyper/hpo/_random.py`: `RandomSearch._ask` (fill inactive hyperparameters).

The code as it is on `/repo` main, i.e. **after** the `fix:` commits 5b1cf8d (normalized
integer-uniform and categorical dimensions sample from their prior) and 1879100 (the weights of a
categorical are kept).

Randomness is an explicit argument: a sampler is a function of the *draw* the NumPy/SciPy
generator hands to it — a uniform number `u` (with the scale `s` that `_uniform_inclusive` uses,
`np.nextafter(scale, scale+1)`, passed as a parameter `s ≥ scale`) or an integer `r` of
`randint(low, high+1)`.  What ConfigSpace samples is an input of the ConfigSpace path.
`log`/`pow` are the parameters `L`, `E` of `Model/Space.lean`.

The only import is the sibling model `Model.Space` (core Lean only, no Mathlib).
-/

namespace DH.Space

/-! ### declarations -/

/-- a Python object inside a shorthand declaration -/
inductive Py
  | int (i : Int) | float (q : Rat) | str (s : String) | bool (b : Bool) | none | other
  deriving DecidableEq, Repr

/-- ConfigSpace hyperparameters `convert_to_skopt_dim` knows, plus `other` (Normal*/Beta*…:
accepted by `add_hyperparameter`, rejected by the conversion) -/
inductive CsHp
  | uniformInt (name : String) (lo hi : Int) (log : Bool)
  | uniformFloat (name : String) (lo hi : Rat) (log : Bool)
  | categorical (name : String) (choices : List Val) (weights : Option (List Rat))
  | ordinal (name : String) (seq : List Val)
  | constant (name : String) (v : Val)
  | other (name : String)
  deriving Repr

def CsHp.name : CsHp → String
  | .uniformInt n _ _ _ => n
  | .uniformFloat n _ _ _ => n
  | .categorical n _ _ => n
  | .ordinal n _ => n
  | .constant n _ => n
  | .other n => n

/-- what is passed as `value` to `HpProblem.add_hyperparameter` -/
inductive Shorthand
  | hp (h : CsHp)                      -- a ConfigSpace object: returned as is
  | scalar (v : Py)                    -- constant
  | tuple (items : List Py)            -- range
  | list (items : List Py)             -- categorical / ordinal
  | dict (muSigma : Bool) (mu : Py) (bounds : Bool)   -- {"mu":…, "sigma":…[, "lower", "upper"]}
  | array                              -- numpy array (passes the first test, matches no branch)
  deriving Repr

inductive CErr
  | valueError | typeError | assertionError | unboundLocalError | indexError | alreadyExists
  deriving DecidableEq, Repr

def Py.toVal? : Py → Option Val
  | .int i => some (.int i)
  | .float q => some (.num q)
  | .str s => some (.str s)
  | .bool b => some (.bool b)
  | _ => Option.none

/-- `isinstance(p, int)` (a `bool` is an `int`) -/
def Py.isInt : Py → Bool
  | .int _ => true
  | .bool _ => true
  | _ => false

def Py.isFloat : Py → Bool
  | .float _ => true
  | _ => false

def Py.isStrOrBool : Py → Bool
  | .str _ => true
  | .bool _ => true
  | _ => false

/-- `int(p)` of an `int`/`bool` -/
def Py.asInt : Py → Int
  | .int i => i
  | .bool b => if b then 1 else 0
  | _ => 0

/-- `float(p)` of a number -/
def Py.asRat : Py → Rat
  | .int i => (i : Rat)
  | .float q => q
  | .bool b => if b then 1 else 0
  | _ => 0

/-- Python `==` between scalars (`True == 1 == 1.0`) -/
def Val.pyEq (a b : Val) : Bool :=
  match a.toRat?, b.toRat? with
  | some x, some y => x == y
  | none, none => a == b
  | _, _ => false

def pyDistinct : List Val → Bool
  | [] => true
  | v :: vs => !(vs.any (Val.pyEq v)) && pyDistinct vs

/-! contracts of the ConfigSpace constructors (observed, compared on every run) -/

def mkUniformInt (name : String) (lo hi : Int) (log : Bool) : Except CErr CsHp :=
  if hi ≤ lo then .error .valueError
  else if log && decide (lo ≤ 0) then .error .valueError
  else .ok (.uniformInt name lo hi log)

/-- `R` is ConfigSpace's `float(np.round(x, 13))` applied to float bounds (a parameter: the
result is a float, compared on every run) -/
def mkUniformFloat (R : Rat → Rat) (name : String) (lo hi : Rat) (log : Bool) : Except CErr CsHp :=
  if R hi ≤ R lo then .error .valueError
  else if log && decide (R lo ≤ 0) then .error .valueError
  else .ok (.uniformFloat name (R lo) (R hi) log)

def mkCategorical (name : String) (choices : List Val) : Except CErr CsHp :=
  if pyDistinct choices then .ok (.categorical name choices none) else .error .valueError

def mkOrdinal (name : String) (seq : List Val) : Except CErr CsHp :=
  if seq.isEmpty then .error .indexError
  else if pyDistinct seq then .ok (.ordinal name seq) else .error .valueError

/-- `check_hyperparameter(parameter, name)` (`name = none` is Python `None`; `default_value` is
not modelled: it does not reach the converted space) -/
def checkHyperparameter (R : Rat → Rat) (parameter : Shorthand) (name : Option String) : Except CErr CsHp :=
  match parameter with
  | .hp h => .ok h
  | .scalar v =>
    -- not a list/tuple/array/dict
    match v.toVal? with
    | some x =>
      match name with
      | some n => .ok (.constant n x)
      | none => .error .typeError           -- ConfigSpace: "Name must be a string"
    | none => .error .valueError
  | .tuple items =>
    match name with
    | none => .error .valueError            -- "The 'name' of an hyper-parameter should be a string!"
    | some n =>
      let rest : Except CErr (Bool × List Py) :=
        match items with
        | [a, b] => .ok (false, [a, b])
        | [a, b, p] =>
          if p == .str "uniform" then .ok (false, [a, b])
          else if p == .str "log-uniform" then .ok (true, [a, b])
          else .error .assertionError
        | _ => .error .unboundLocalError    -- `prior` is never assigned for other lengths
      match rest with
      | .error e => .error e
      | .ok (log, ab) =>
        match ab with
        | [a, b] =>
          if a.isInt && b.isInt then mkUniformInt n a.asInt b.asInt log
          else if a.isFloat || b.isFloat then
            -- ConfigSpace converts the bounds with float(): a str / None bound raises there
            if (a.isInt || a.isFloat) && (b.isInt || b.isFloat) then mkUniformFloat R n a.asRat b.asRat log
            else .error .typeError
          else .error .valueError
        | _ => .error .valueError
  | .list items =>
    match name with
    | none => .error .valueError
    | some n =>
      if items.any Py.isStrOrBool then
        match items.mapM Py.toVal? with
        | some vs => mkCategorical n vs
        | none => .error .typeError         -- unhashable / unsupported choice
      else if items.all (fun p => p.isInt || p.isFloat) then
        mkOrdinal n (items.filterMap Py.toVal?)
      else .error .valueError
  | .dict muSigma mu bounds =>
    match name with
    | none => .error .valueError
    | some n =>
      if muSigma then
        if mu.isFloat || (mu.isInt && mu != .bool true && mu != .bool false) then
          if bounds then .ok (.other n) else .error .typeError
        else .error .valueError
      else .error .valueError
  | .array =>
    match name with
    | none => .error .valueError
    | some _ => .error .valueError

/-! ### conversion -/

/-- a converted dimension: name, the `Dim`, and the prior of a categorical (`none` = uniform) -/
structure SkoptDim where
  name : String
  dim : Dim
  prior : Option (List Rat)
  deriving Repr

/-- `surrogate_model in ["RF", "ET", "GBRT", "HGBRT", "MF", "BT"]` -/
def ruleBased (surrogate : String) : Bool :=
  ["RF", "ET", "GBRT", "HGBRT", "MF", "BT"].contains surrogate

/-- `isinstance(x, (int, np.integer)) or isinstance(x, (float, np.floating))` -/
def Val.isNumeric : Val → Bool
  | .int _ => true
  | .num _ => true
  | .bool _ => true
  | .str _ => false

/-- `convert_to_skopt_dim` -/
def toSkoptDim (h : CsHp) (surrogate : String) : Except CErr SkoptDim :=
  match h with
  | .uniformInt n lo hi log =>
    .ok ⟨n, .int lo hi (if log then .logUniform else .uniform) .identity, none⟩
  | .uniformFloat n lo hi log =>
    .ok ⟨n, .real lo hi (if log then .logUniform else .uniform) .identity, none⟩
  | .categorical n choices w =>
    .ok ⟨n, .cat choices (if ruleBased surrogate then .label else .onehot), w⟩
  | .ordinal n seq =>
    .ok ⟨n, .cat seq (if seq.all Val.isNumeric then .identity else .label), none⟩
  | .constant n v => .ok ⟨n, .cat [v] .label, none⟩
  | .other _ => .error .typeError

def mapC {α β : Type} (f : α → Except CErr β) : List α → Except CErr (List β)
  | [] => .ok []
  | a :: as =>
    match f a with
    | .error e => .error e
    | .ok b =>
      match mapC f as with
      | .error e => .error e
      | .ok bs => .ok (b :: bs)

/-- `convert_to_skopt_space(cs_space, surrogate_model)`: `hps` = `list(cs_space.values())` in
ConfigSpace's order; the second component says whether ConfigSpace does the sampling -/
def convertToSkoptSpace (hps : List CsHp) (nConditions nForbidden : Nat) (surrogate : String) :
    Except CErr (List SkoptDim × Bool) :=
  match mapC (fun h => toSkoptDim h surrogate) hps with
  | .error e => .error e
  | .ok dims => .ok (dims, decide (0 < nConditions) || decide (0 < nForbidden))

/-- `ConfigurationSpace.add` without conditions keeps the hyperparameters sorted by name -/
def insertByName (h : CsHp) : List CsHp → List CsHp
  | [] => [h]
  | g :: gs => if h.name < g.name then h :: g :: gs else g :: insertByName h gs

/-- `HpProblem.add_hyperparameter(value, name)` on a space without conditions -/
def addHyperparameter (R : Rat → Rat) (space : List CsHp) (value : Shorthand) (name : Option String) :
    Except CErr (List CsHp) :=
  match checkHyperparameter R value name with
  | .error e => .error e
  | .ok h =>
    if space.any (fun g => g.name == h.name) then .error .alreadyExists
    else .ok (insertByName h space)

/-! ### executable checker: is a sampled point allowed by the declarations, name by name? -/

/-- value AND Python kind allowed by the declaration.  `loose`: on ConfigSpace's own paths a
numeric ordinal comes back NumPy-coerced (`1` as `1.0`): compared with Python `==` there. -/
def legalValue (loose : Bool) : CsHp → Val → Bool
  | .uniformInt _ lo hi _, .int i => decide (lo ≤ i) && decide (i ≤ hi)
  | .uniformFloat _ lo hi _, .num q => decide (lo ≤ q) && decide (q ≤ hi)
  | .categorical _ choices _, v => decide (v ∈ choices)
  | .ordinal _ seq, v => if loose then seq.any (Val.pyEq v) else decide (v ∈ seq)
  | .constant _ c, v => decide (v = c)
  | _, _ => false

/-- `row[i]` is legal for `hps[i]` (the hyperparameters in the order of
`problem.hyperparameter_names`), and there is exactly one value per hyperparameter -/
def checkPoint (loose : Bool) (hps : List CsHp) (row : List Val) : Bool :=
  all2 (legalValue loose) hps row

/-! ### per-dimension samplers -/

/-- what the random generator hands to the sampler -/
inductive Draw
  | u (q : Rat) (s : Rat)   -- a uniform number `q` and the scale used by `_uniform_inclusive`
  | r (k : Int)             -- an integer of `randint(low, high + 1)`
  deriving Repr

/-- cumulative sums `[p0, p0+p1, …]` -/
def cumsum (acc : Rat) : List Rat → List Rat
  | [] => []
  | p :: ps => (acc + p) :: cumsum (acc + p) ps

/-- `rv_discrete._ppf`: index of the first cumulative weight `≥ q`, `0` when there is none
(`argmax` of an all-false array) -/
def firstGe (q : Rat) (i : Nat) : List Rat → Option Nat
  | [] => none
  | c :: cs => if q ≤ c then some i else firstGe q (i + 1) cs

def ppfIdx (prior : List Rat) (q : Rat) : Nat :=
  match firstGe q 0 (cumsum 0 prior) with
  | some i => i
  | none => 0

/-- `prior_`: the given prior or `1/n` for every category -/
def priorOf (n : Nat) : Option (List Rat) → List Rat
  | some w => w
  | none => List.replicate n (1 / (n : Rat))

/-- the value of `self._rvs.rvs(...)` (in the transformed space) for one draw -/
def rvsTransformed (L : Rat → Rat) : Dim → Draw → Except Err Rat
  | .real _ _ _ .normalize, .u q s => .ok (0 + q * s)
  | .real lo _ .uniform .identity, .u q s => .ok (lo + q * s)
  | .real lo _ .logUniform .identity, .u q s => .ok (L lo + q * s)
  | .int lo hi .uniform .normalize, .r k => .ok (((k : Rat) - (lo : Rat)) / ((hi : Rat) - (lo : Rat)))
  | .int _ _ .uniform .identity, .r k => .ok (k : Rat)
  | .int _ _ .logUniform .normalize, .u q s => .ok (0 + q * s)
  | .int lo _ .logUniform .identity, .u q s => .ok (L (lo : Rat) + q * s)
  | _, _ => .error .typeError

/-- `Dimension.rvs` / `Real.rvs` / `Categorical.rvs` for one draw -/
def sampleDim (L E : Rat → Rat) (d : Dim) (prior : Option (List Rat)) (w : Draw) : Except Err Val :=
  match d with
  | .cat cs _ =>
    match w with
    | .u q _ =>
      match cs[ppfIdx (priorOf cs.length prior) q]? with
      | some v => .ok v
      | none => .error .indexError
    | .r _ => .error .typeError
  | d =>
    match rvsTransformed L d w with
    | .error e => .error e
    | .ok t =>
      match d.inverseTransform L E (.vals [.num t]) with
      | .error e => .error e
      | .ok [v] => .ok v
      | .ok _ => .error .indexError

/-- the sampler before `fix: normalized Integer (uniform) and Categorical dimensions sample from
their prior`: a uniform number of [0, 1] pushed through `inverse_transform` -/
def sampleNormalizedOld (L E : Rat → Rat) (d : Dim) (q : Rat) : Except Err Val :=
  match d.inverseTransform L E (.vals [.num q]) with
  | .error e => .error e
  | .ok [v] => .ok v
  | .ok _ => .error .indexError

/-! ### the laws of the integer log-uniform samplers, as cells of the value before rounding -/

/-- flat path (`Integer(prior="log-uniform")`, both transforms): `round(clip(base ** a))`; the
values rounded to `k` are those of `[k - 1/2, k + 1/2] ∩ [low, high]` -/
def flatCell (lo hi k : Int) : Rat × Rat :=
  (if (k : Rat) - 1 / 2 < (lo : Rat) then (lo : Rat) else (k : Rat) - 1 / 2,
   if (hi : Rat) < (k : Rat) + 1 / 2 then (hi : Rat) else (k : Rat) + 1 / 2)

/-- ConfigSpace's `quantize(x, bounds=(low, high), bins=high-low+1)` of a value `x` of `[low, high]`
(`functional.quantize`: `floor(unitnorm * bins).clip(0, bins - 1)`), as the integer it stands for -/
def csQuantize (lo hi : Int) (x : Rat) : Int :=
  let bins : Int := hi - lo + 1
  let level := ((x - (lo : Rat)) / ((hi : Rat) - (lo : Rat)) * (bins : Rat)).floor
  lo + (if level < 0 then 0 else if bins - 1 < level then bins - 1 else level)

/-- ConfigSpace's sampler of `UniformIntegerHyperparameter(log=True)` (ConfigSpace path,
`RandomSearch`): `u ↦ quantize_log`: lift `u` to `[ln low, ln high]`, exponentiate, quantize into
`high - low + 1` equal bins of `[low, high]` (`L = ln`, `E = exp`).  ConfigSpace is an external
library: this function is its *model*, compared with `hp.sample_value` under a scripted stream. -/
def csIntLogSample (L E : Rat → Rat) (lo hi : Int) (u : Rat) : Int :=
  csQuantize lo hi (E (L (lo : Rat) + u * (L (hi : Rat) - L (lo : Rat))))

/-- bin `j` of ConfigSpace's quantisation: `[low + j·w, low + (j+1)·w)`, `w = (high-low)/(high-low+1)` -/
def csCell (lo hi j : Int) : Rat × Rat :=
  let w : Rat := ((hi : Rat) - (lo : Rat)) / (((hi - lo + 1 : Int)) : Rat)
  ((lo : Rat) + (j : Rat) * w, (lo : Rat) + ((j : Rat) + 1) * w)

/-- `Space.rvs`, flat path: dimension `j` is sampled from its own child stream
(`draws[j]`, one draw per sample); result rows are the samples -/
def rvsFlat (L E : Rat → Rat) : List SkoptDim → List (List Draw) → Except Err (List (List Val))
  | [], _ => .ok []
  | _ :: _, [] => .error .indexError
  | d :: ds, ws :: wss =>
    match mapE (sampleDim L E d.dim d.prior) ws with
    | .error e => .error e
    | .ok col =>
      match rvsFlat L E ds wss with
      | .error e => .error e
      | .ok cols => .ok (col :: cols)

/-- `Space.rvs` flat path as rows (`columns.tolist()`) -/
def rvsFlatRows (L E : Rat → Rat) (dims : List SkoptDim) (draws : List (List Draw)) :
    Except Err (List (List Val)) :=
  match rvsFlat L E dims draws with
  | .error e => .error e
  | .ok cols => transposeCols cols

/-- the value given to an inactive hyperparameter: `dimensions[i].bounds[0]` (`Space.rvs`) =
`get_inactive_value_of_hyperparameter` (`RandomSearch._ask`) -/
def inactiveValue : Dim → Option Val
  | .real lo _ _ _ => some (.num lo)
  | .int lo _ _ _ => some (.int lo)
  | .cat (c :: _) _ => some c
  | .cat [] _ => none

/-- the value of one hyperparameter of a sampled configuration: what ConfigSpace sampled, or the
inactive value when the name is absent -/
def confCell (conf : List (String × Val)) (d : SkoptDim) : Except Err Val :=
  match conf.lookup d.name with
  | some v => .ok v
  | none =>
    match inactiveValue d.dim with
    | some v => .ok v
    | none => .error .indexError

/-- `Space.rvs`, ConfigSpace path, and `RandomSearch._ask`: one configuration sampled by
ConfigSpace (`conf`: name ↦ value, inactive names absent) becomes a point in dimension order -/
def pointOfConf (dims : List SkoptDim) (conf : List (String × Val)) : Except Err (List Val) :=
  mapE (confCell conf) dims

end DH.Space
