/-!
# Streams: a tiny effect language for "where does the randomness come from"

C07 (seeded searches are reproducible) is a statement about *hidden inputs* of a
Python process: the process-global NumPy generator, the process-global `random`
generator, SciPy's default generator, OS entropy (`RandomState()` without a seed,
`uuid4`, pids, addresses), the string-hash seed (`PYTHONHASHSEED`, which fixes the
iteration order of sets of strings) and the clock.

* a **stream** is one such source, or `seeded k`: an explicit generator object
  derived from the user's integer `random_state`;
* a **program** is a list of instructions
  `draw site s` (consume one value of stream `s` at source location `site`),
  `useSeed k` (`k := RandomState(seed)`), `fork p c adv` (`c := RandomState(value of p)`,
  advancing `p` or — `adv = false` — only peeking at its state, as
  `config_space.seed(rng.get_state()[1][0])` does), `output` (a proposal leaves the
  search: it may depend on everything drawn so far);
* a **world** is the state of every stream when the search object is created.

The semantics is parametric in the generator algorithm `Gen` (how a seed becomes a
state, how a state yields a value and a next state): nothing about Mersenne Twister
is assumed.

The second half of the file is the hand model of how the search classes thread the
one seeded generator (`Search.__init__ → CBO.__init__ → Optimizer.__init__ →
Space.rvs`, `Optimizer.ask` constant-liar copies, `RandomSearch`,
`RegularizedEvolution`) as programs of this language; `Site`/`Reach` are the row
types of the table generated from the Python sources (`Generated/C07Sites.lean`).

Core Lean only (no imports).
-/

namespace DH.Streams

/-! ## streams, instructions, semantics -/

inductive Stream where
  | seeded (k : Nat)
  | numpyGlobal
  | pythonGlobal
  | scipyGlobal
  | osEntropy
  | hashSeed
  | clock
  /-- mutable objects that live as long as the interpreter and are shared by all searches in it:
  class-level / module-level dicts and lists, mutable default arguments, `lru_cache`s.  What an
  EARLIER search stored there is a hidden input of a later one. -/
  | processState
deriving DecidableEq, Repr

def Stream.isSeeded : Stream → Bool
  | .seeded _ => true
  | _ => false

def Stream.name : Stream → String
  | .seeded _ => "seeded"
  | .numpyGlobal => "numpyGlobal"
  | .pythonGlobal => "pythonGlobal"
  | .scipyGlobal => "scipyGlobal"
  | .osEntropy => "osEntropy"
  | .hashSeed => "hashSeed"
  | .clock => "clock"
  | .processState => "processState"

inductive Instr where
  | draw (site : Nat) (s : Stream)
  | useSeed (k : Nat)
  | fork (parent : Stream) (child : Nat) (advance : Bool)
  | output
  /-- a memo that is NOT keyed by the seed (`if key not in Cls._cache: Cls._cache[key] = f(rng)`; use
  `Cls._cache[key]`): when the cell `cache` is empty (`0`) a value is drawn from `src` and stored
  (as `value + 1`), otherwise the stored value is used and `src` is not touched -/
  | memo (site : Nat) (cache : Stream) (src : Stream)
deriving DecidableEq, Repr

/-- the generator algorithm: seed ↦ state, state ↦ (value, next state) -/
structure Gen where
  init : Nat → Nat
  next : Nat → Nat × Nat

/-- the state of every stream -/
abbrev World := Stream → Nat

def World.set (w : World) (s : Stream) (v : Nat) : World :=
  fun t => if t = s then v else w t

/-- machine state: the world, every value drawn so far (newest first), the observations
emitted so far (newest first; an observation is the whole draw history, so any function
of it — the proposal — is determined by it) -/
structure St where
  world : World
  hist : List Nat
  outs : List (List Nat)

def step (g : Gen) (seed : Nat) (c : St) : Instr → St
  | .draw _ s =>
    let r := g.next (c.world s)
    { c with world := c.world.set s r.2, hist := r.1 :: c.hist }
  | .useSeed k => { c with world := c.world.set (.seeded k) (g.init seed) }
  | .fork p ch adv =>
    let r := g.next (c.world p)
    let w := if adv then c.world.set p r.2 else c.world
    { c with world := w.set (.seeded ch) (g.init r.1) }
  | .output => { c with outs := c.hist :: c.outs }
  | .memo _ cache src =>
    if c.world cache = 0 then
      let r := g.next (c.world src)
      { c with world := (c.world.set src r.2).set cache (r.1 + 1), hist := r.1 :: c.hist }
    else { c with hist := (c.world cache - 1) :: c.hist }

def run (g : Gen) (seed : Nat) (prog : List Instr) (c : St) : St :=
  prog.foldl (step g seed) c

/-- what an observer of the proposals sees -/
def outputs (g : Gen) (seed : Nat) (prog : List Instr) (w : World) : List (List Nat) :=
  (run g seed prog ⟨w, [], []⟩).outs.reverse

/-- the world that earlier activity of the interpreter leaves behind: each element is one earlier
search (any program — any class, options, call script — run with its own seed), oldest first.  Seeded
streams (generator objects still alive), global generators and the process-level state all carry over. -/
def worldAfter (g : Gen) : List (Nat × List Instr) → World → World
  | [], w => w
  | (seed', q) :: rest, w => worldAfter g rest (run g seed' q ⟨w, [], []⟩).world

/-- the instruction touches seeded streams only -/
def Instr.pure : Instr → Bool
  | .draw _ s => s.isSeeded
  | .fork p _ _ => p.isSeeded
  | .memo _ _ _ => false
  | _ => true

/-- two worlds agree on every seeded stream (they may differ on every hidden input) -/
def Agree (w₁ w₂ : World) : Prop := ∀ k, w₁ (.seeded k) = w₂ (.seeded k)

/-! ### well-initialised programs: every seeded stream is created (from the seed, or
from an initialised stream) before it is used -/

/-- `wfGo i p`: running `p` when exactly the streams in `i` have been initialised never reads
an uninitialised or hidden stream -/
def wfGo : List Nat → List Instr → Bool
  | _, [] => true
  | i, .draw _ (.seeded k) :: r => decide (k ∈ i) && wfGo i r
  | _, .draw _ _ :: _ => false
  | i, .useSeed k :: r => wfGo (k :: i) r
  | i, .fork (.seeded p) c _ :: r => decide (p ∈ i) && wfGo (c :: i) r
  | _, .fork _ _ _ :: _ => false
  | i, .output :: r => wfGo i r
  | _, .memo _ _ _ :: _ => false

/-- the streams initialised after running `p` from `i` -/
def after : List Nat → List Instr → List Nat
  | i, [] => i
  | i, .useSeed k :: r => after (k :: i) r
  | i, .fork _ c _ :: r => after (c :: i) r
  | i, .draw _ _ :: r => after i r
  | i, .output :: r => after i r
  | i, .memo _ _ _ :: r => after i r

/-- closed program: needs nothing initialised beforehand -/
def WellInit (p : List Instr) : Bool := wfGo [] p

/-! ## rows of the generated table -/

/-- reachability of a site from the Search API options (hand-maintained map in
`harness/rng_scan.py`; a site no rule mentions is `live []`) -/
inductive Reach where
  /-- executed by the supported configurations whose options satisfy every `(option, allowed values)` -/
  | live (conds : List (String × List String))
  /-- no supported configuration executes it (justification in `why`) -/
  | unreachable
  /-- executed, but its value cannot reach a proposal (log text, metadata, file names) -/
  | noFlow
  /-- executed only by configurations outside the property's quantifier (no integer seed, MPI, stoppers, …) -/
  | outOfScope

def Reach.isLive : Reach → Bool
  | .live _ => true
  | _ => false

structure Site where
  id : Nat
  file : String
  line : Nat
  func : String
  kind : String
  text : String
  stream : Stream
  reach : Reach
  why : String

/-- the obligation on one row -/
def Site.ok (s : Site) : Bool := !s.reach.isLive || s.stream.isSeeded

/-- **the re-checked obligation**: every site reachable from a supported configuration draws from a
seeded stream -/
def sitesSeeded (l : List Site) : Bool := l.all Site.ok

/-- a configuration: option ↦ value, as text -/
abbrev Config := List (String × String)

def condHolds (cfg : Config) (c : String × List String) : Bool :=
  match cfg.lookup c.1 with
  | some v => c.2.contains v
  | none => false

/-- does configuration `cfg` execute the site? -/
def Reach.reaches (cfg : Config) : Reach → Bool
  | .live conds => conds.all (condHolds cfg)
  | _ => false

/-- the sites a configuration executes -/
def reached (l : List Site) (cfg : Config) : List Site := l.filter (fun s => s.reach.reaches cfg)

/-- the hidden inputs a configuration may depend on, according to the table -/
def hiddenSites (l : List Site) (cfg : Config) : List Site :=
  (reached l cfg).filter (fun s => !s.stream.isSeeded)

/-- program of the table for one configuration and `rounds` ask/tell rounds: the root generator
is created from the seed, every explicit generator object of the table is derived from it, then
each round executes every reached site once and emits a proposal.  (Over-approximation: a
real round executes a subset.) -/
def siteInstr (s : Site) : List Instr :=
  match s.stream with
  | .seeded k => [.fork (.seeded 0) (k + 1) true, .draw s.id (.seeded (k + 1))]
  | st => [.draw s.id st]

def roundProgram (l : List Site) (cfg : Config) : List Instr :=
  (reached l cfg).flatMap siteInstr ++ [.output]

def tableProgram (l : List Site) (cfg : Config) : Nat → List Instr
  | 0 => [.useSeed 0]
  | n + 1 => tableProgram l cfg n ++ roundProgram l cfg

/-! ## hand model of the seed threading of the search classes

stream ids: `0` root (`Search._random_state`, the same object is `Optimizer.rng` and
`MoScalarFunction._rng`), `1` surrogate (`CBO.__init__`: `random_state=self._random_state.randint(..)`),
`2` estimator cooked by name (`Optimizer.__init__`: `cook_estimator(.., random_state=self.rng.randint(..))`),
`3` ConfigSpace's own generator (`config_space.seed(self.rng.get_state()[1][0])` — a *peek*;
`space.seed(self._random_state.randint(..))` in RandomSearch / RegularizedEvolution),
`4` initial design (`generate(.., random_state=self.rng.randint(..))`),
`5` pymoo (`minimize(.., seed=self.rng.randint(..))`),
`6` constant-liar copy (`self.copy(random_state=self.rng.randint(..))`),
`10 + d` per-dimension generators of `Space.rvs` (`RandomState(random_states[d])`).

Site numbers inside this hand model are the small constants below, not rows of the
generated table; `harness/c07.py` checks that each of these derivation edges is present in
the generated table (same function, same parent expression). -/

inductive SearchKind where
  | cbo | random | regevo
deriving DecidableEq, Repr

inductive Strategy where
  | cl | qlcb | boltzmann | topk
deriving DecidableEq, Repr

structure Opts where
  search : SearchKind
  /-- surrogate handed to `Optimizer` as a string ("GP"): cooked there with a fresh seed -/
  estimatorByName : Bool
  /-- conditions / forbidden clauses: sampling goes through ConfigSpace -/
  cfgSpace : Bool
  /-- initial_point_generator ≠ "random" -/
  design : Bool
  ndims : Nat
  /-- acq_func MES / MESd: `gaussian_mes` samples (from the optimizer's generator after the repair) -/
  mes : Bool
  /-- acq_func gp_hedge / gp_hedged: `rng.multinomial` -/
  hedge : Bool
  /-- multi-objective: `MoScalarFunction.update_weight` draws from the root generator -/
  moo : Bool
  /-- acq_optimizer ga / mixedga: `minimize(seed=rng.randint)` -/
  pymoo : Bool
  strategy : Strategy

/-- what the environment decides at each call (universally quantified in the theorems) -/
inductive Op where
  /-- `ask(n)`; `fitted`: past the initial phase; `randomPts`: `_ask_random_points` is hit -/
  | ask (n : Nat) (fitted : Bool) (randomPts : Bool)
  /-- `tell`; `fit`: a surrogate is fitted and the next point computed -/
  | tell (fit : Bool)
  /-- `Optimizer.update_next()` (CBO: ask called again before any tell, or a told batch that only held ignored
  failures): `opt = self.copy(random_state=self.rng)` — a throw-away copy that SHARES the optimizer's generator,
  runs its constructor and, when `fitted`, one fitting step -/
  | refresh (fitted : Bool)

def dimForks (r : Nat) : List Nat → List Instr
  | [] => []
  | d :: ds => .fork (.seeded r) (10 + d) true :: .draw 101 (.seeded (10 + d)) :: dimForks r ds

/-- `Space.rvs(random_state = generator r)` -/
def spaceRvs (o : Opts) (r : Nat) : List Instr :=
  if o.cfgSpace then [.draw 100 (.seeded 3)] else dimForks r (List.range o.ndims)

/-- `Optimizer.__init__(random_state = generator r)` -/
def optimizerInit (o : Opts) (r : Nat) : List Instr :=
  (if o.estimatorByName then [.fork (.seeded r) 2 true] else []) ++
  (if o.cfgSpace then [.fork (.seeded r) 3 false] else []) ++
  (if o.design then [.fork (.seeded r) 4 true, .draw 102 (.seeded 4)] else [])

/-- the fitting half of `Optimizer._tell` run with generator `r` -/
def fitStep (o : Opts) (r : Nat) : List Instr :=
  (if o.moo then [.draw 103 (.seeded r)] else []) ++
  spaceRvs o r ++
  (if o.mes then [.draw 104 (.seeded r)] else []) ++
  (if o.pymoo then [.fork (.seeded r) 5 true, .draw 105 (.seeded 5)] else []) ++
  (if o.hedge then [.draw 106 (.seeded r)] else [])

def lies (o : Opts) : Nat → List Instr
  | 0 => []
  | n + 1 => fitStep o 6 ++ lies o n

def draws (site r : Nat) : Nat → List Instr
  | 0 => []
  | n + 1 => .draw site (.seeded r) :: draws site r n

def opProgram (o : Opts) : Op → List Instr
  | .tell fit => if fit then fitStep o 0 else []
  | .refresh fitted =>
    match o.search with
    | .cbo => optimizerInit o 0 ++ (if fitted then fitStep o 0 else [])
    | _ => []
  | .ask n fitted randomPts =>
    match o.search with
    | .random => [.draw 110 (.seeded 3), .output]
    | .regevo =>
      (if fitted then draws 111 0 n ++ draws 112 0 n ++ draws 113 3 n else [.draw 110 (.seeded 3)]) ++ [.output]
    | .cbo =>
      (if !fitted || n ≤ 1 then (if randomPts then spaceRvs o 0 else [])
       else match o.strategy with
        | .topk => []
        | .boltzmann => draws 107 0 (n - 1)
        | .qlcb => spaceRvs o 0 ++ [.draw 108 (.seeded 0)]
        | .cl => [.fork (.seeded 0) 6 true] ++ optimizerInit o 6 ++ fitStep o 6 ++ lies o (n - 1)) ++
      [.output]

def initProgram (o : Opts) : List Instr :=
  match o.search with
  | .cbo => [.useSeed 0, .fork (.seeded 0) 1 true] ++ optimizerInit o 0
  | _ => [.useSeed 0, .fork (.seeded 0) 3 true]

def script (o : Opts) : List Op → List Instr
  | [] => []
  | op :: ops => opProgram o op ++ script o ops

/-- the whole life of one search object -/
def searchProgram (o : Opts) (ops : List Op) : List Instr := initProgram o ++ script o ops

/-- `Search.__init__` with `random_state=None`: the root generator is seeded from OS entropy
(what the scan reports as `rng-ctor-noseed`, out of the property's scope) -/
def unseededInit : List Instr := [.fork .osEntropy 0 true]

/-- an initial design whose expensive optimisation is memoised in a class-level dict keyed by its
shape only (not by the generator): `fork 0 → 4` (the design seed), then the memo on the process-level cell -/
def memoDesign : List Instr :=
  [.useSeed 0, .fork (.seeded 0) 4 true, .memo 102 .processState (.seeded 4), .output]

/-- pre-repair `gaussian_mes`: `norm.rvs(loc, scale)` without `random_state` -/
def mesPreFix : List Instr := [.useSeed 0, .draw 104 .scipyGlobal, .output]

/-! ### which source sites the hand model claims to describe

`instr` is the site number used in the programs above (`0`: a derivation `useSeed`/`fork`).
`harness/c07.py` (through the driver) checks on every run that (a) every row below is matched by
at least `count` rows of the generated table (same function, same kind, `pat` occurs in the source
text) and (b) every generator-related row of the generated table that lies in one of the
`coreFuncs` is matched by a row below or by `notModelled`. -/

structure ModelSite where
  instr : Nat
  func : String
  kind : String
  pat : String
  count : Nat
  what : String

def modelSites : List ModelSite := [
  ⟨0, "Search.__init__", "rng-ctor", "np.random.RandomState(", 1, "useSeed 0"⟩,
  ⟨0, "Search.__init__", "owns-state", "copy.deepcopy(problem)", 1, "the search owns a private copy of the problem: ConfigSpace's generator (stream 3) is not shared with the caller's problem or with other searches"⟩,
  ⟨0, "CBO.__init__", "rng-method", "self._random_state.randint(", 1, "fork 0 → 1 (surrogate seed)"⟩,
  ⟨0, "Optimizer.__init__", "crs", "check_random_state(random_state)", 1, "Optimizer.rng is the generator it is given (alias of 0, or the copy's 6)"⟩,
  ⟨0, "Optimizer.__init__", "rng-method", "self.rng.randint(", 2, "fork r → 2 (cook_estimator), fork r → 4 (initial design)"⟩,
  ⟨0, "Optimizer.__init__", "seed-call", "config_space.seed(self.rng.get_state()[1][0])", 1, "fork r → 3 without advancing r"⟩,
  ⟨0, "Optimizer.__init__", "rng-method", "self.rng.get_state()", 1, "the peek of the previous row"⟩,
  ⟨102, "Lhs.generate", "crs", "check_random_state(random_state)", 1, "initial design (lhs) drawn from generator 4 and from nothing else"⟩,
  ⟨102, "Sobol.generate", "crs", "check_random_state(random_state)", 1, "initial design (sobol) drawn from generator 4"⟩,
  ⟨102, "Halton.generate", "crs", "check_random_state(random_state)", 1, "initial design (halton) drawn from generator 4"⟩,
  ⟨102, "Halton.generate", "rng-method", "rng.randint(self.min_skip", 1, "the halton skip"⟩,
  ⟨102, "Hammersly.generate", "crs", "check_random_state(random_state)", 1, "initial design (hammersly) drawn from generator 4"⟩,
  ⟨102, "Grid.generate", "crs", "check_random_state(random_state)", 1, "initial design (grid) drawn from generator 4"⟩,
  ⟨102, "Grid.generate", "rng-method", "rng.shuffle(h)", 1, "the order of the grid points"⟩,
  ⟨0, "Space.rvs", "crs", "check_random_state(random_state)", 1, "generator r handed to Space.rvs"⟩,
  ⟨0, "Space.rvs", "rng-method", "rng.randint(", 1, "fork r → 10+d for every dimension"⟩,
  ⟨0, "Space.rvs", "rng-ctor", "RandomState(random_states[i])", 1, "the per-dimension generators 10+d"⟩,
  ⟨100, "Space.rvs", "rng-method", "config_space.sample_configuration(", 1, "draw from ConfigSpace's generator 3"⟩,
  ⟨101, "_sample_dimension", "rvs-seeded", "random_state=random_state", 1, "draw from 10+d"⟩,
  ⟨103, "MoScalarFunction.update_weight", "rng-method", "self._rng.rand(", 1, "scalarisation weights drawn from the root generator"⟩,
  ⟨104, "gaussian_mes", "rvs-seeded", "random_state=random_state", 1, "MES samples drawn from the optimizer's generator"⟩,
  ⟨105, "Optimizer._tell", "seed-kw", "minimize(", 2, "fork r → 5 (pymoo seed), ga and mixedga"⟩,
  ⟨105, "Optimizer._tell", "rng-method", "self.rng.randint(", 2, "the two pymoo seeds"⟩,
  ⟨106, "Optimizer._tell", "rng-method", "self.rng.multinomial(", 1, "gp_hedge choice"⟩,
  ⟨0, "Optimizer._tell", "rvs-seeded", "random_state=self.rng", 1, "spaceRvs r in fitStep"⟩,
  ⟨0, "Optimizer._ask_random_points", "rvs-seeded", "random_state=self.rng", 1, "spaceRvs 0 in ask"⟩,
  ⟨0, "Optimizer.ask", "rvs-seeded", "random_state=self.rng", 1, "spaceRvs 0 in the qLCB branch"⟩,
  ⟨107, "Optimizer.ask", "rng-method", "self.rng.multinomial(", 1, "boltzmann draws"⟩,
  ⟨108, "Optimizer.ask", "rng-method", "self.rng.exponential(", 1, "qLCB kappas"⟩,
  ⟨0, "Optimizer.ask", "rng-method", "self.rng.randint(", 1, "fork 0 → 6 (constant-liar copy)"⟩,
  ⟨0, "RandomSearch.__init__", "seed-call", "space.seed(self._random_state.randint(", 1, "fork 0 → 3"⟩,
  ⟨0, "RandomSearch.__init__", "rng-method", "self._random_state.randint(", 1, "the draw of the previous row"⟩,
  ⟨110, "RandomSearch._ask", "rng-method", "space.sample_configuration(", 1, "draw from 3"⟩,
  ⟨0, "RegularizedEvolution.__init__", "seed-call", "space.seed(self._random_state.randint(", 1, "fork 0 → 3"⟩,
  ⟨0, "RegularizedEvolution.__init__", "rng-method", "self._random_state.randint(", 1, "the draw of the previous row"⟩,
  ⟨110, "RegularizedEvolution._ask", "rng-method", "space.sample_configuration(", 1, "draw from 3 while the population fills"⟩,
  ⟨111, "RegularizedEvolution._ask", "rng-method", "self._random_state.choice(self.population_size", 1, "tournament sample"⟩,
  ⟨112, "RegularizedEvolution._ask", "rng-method", "self._random_state.choice(active_hyperparameter_names)", 1, "which hyperparameter mutates"⟩,
  ⟨113, "RegularizedEvolution._ask", "rvs-seeded", "random_state=space.random", 1, "new value from ConfigSpace's generator 3"⟩
]

/-- functions whose every generator-related site must be accounted for -/
def coreFuncs : List String := [
  "Search.__init__", "CBO.__init__", "RandomSearch.__init__", "RandomSearch._ask",
  "RegularizedEvolution.__init__", "RegularizedEvolution._ask", "Optimizer.__init__", "Optimizer.ask",
  "Optimizer._ask_random_points", "Optimizer._tell", "Optimizer.copy", "Optimizer.update_next", "Optimizer._moo_scalarize",
  "MoScalarFunction.__init__",
  "Lhs.generate", "Sobol.generate", "Halton.generate", "Hammersly.generate", "Grid.generate",
  "Space.rvs", "_sample_dimension", "gaussian_mes", "_gaussian_acquisition", "MoScalarFunction.update_weight"]

/-- sites in core functions that the hand model deliberately leaves out (func, pattern, why) -/
def notModelled : List (String × String × String) := [
  ("Space.rvs", "model_sdv.sample(", "transfer learning (fit_generative_model): outside the property's matrix"),
  ("Space.rvs", "hp.sample_value(", "transfer learning (fit_generative_model): outside the property's matrix"),
  ("Space.rvs", "set(hps_names) - set(sdv_names)", "transfer learning; classified outOfScope by the reachability map"),
  ("Space.rvs", "dim.rvs(n_samples=n_samples, random_state=rng)", "transfer learning on a flat space"),
  ("Search.__init__", "np.random.RandomState()", "random_state=None: outside the property (see unseededInit)"),
  ("MoScalarFunction.__init__", "np.random.RandomState(", "MoScalarFunction is always given the optimizer's RandomState (alias of the root); its int / None branches are not taken"),
  ("Optimizer._tell", "gaussian_acquisition_1D", "function value handed to fmin_l_bfgs_b; the generator travels in its args tuple"),
  ("Search.__init__", "time.strftime", "clock: names a backup file")]

/-- kinds that concern generators / hidden inputs other than the clock -/
def Site.generatorRelated (s : Site) : Bool :=
  s.kind != "clock" && s.kind != "entropy"

/-- a concrete generator for examples and the driver (a small LCG) -/
def lcg : Gen := ⟨fun s => s % 2147483647 + 1, fun x => let y := (x * 48271 + 11) % 2147483647; (y % 1000, y)⟩

/-- worlds for examples and the driver: every seeded stream starts at `a`, hidden streams at `b` -/
def mkWorld (a b : Nat) : World := fun s => if s.isSeeded then a else b

end DH.Streams
