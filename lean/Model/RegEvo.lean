import Model.Membership

/-!
# Model of `RegularizedEvolution._ask` / `_tell` (`deephyper/hpo/_regevo.py`)

* population: a `deque(maxlen=population_size)` of `(configuration, objective)`; `tell` appends
  the non-failed results (the oldest drop out);
* `ask(n)` while the population is not full: `n` fresh ConfigSpace samples completed with the
  canonical inactive values (`Model/Membership.lean`'s `fillInactive`; here the completed sample is
  the environment input);
* `ask(n)` afterwards, for each of the `n` children: draw `sample_size` members of the population
  (`idxs`), take the one with the best objective (the first maximum), compute its active
  hyperparameters (`drop_inactive_values` + ConfigSpace's `deactivate_inactive_hyperparameters`,
  = `deactivateCS`), then up to 100 times: pick ONE active hyperparameter (`name`) and a fresh value
  drawn from it (`value`), write it into a copy of the parent, and deactivate/activate the children
  by the conditions (`deactivateCS` again: drops what became inactive, keeps the placeholder of what
  became active, validates); a `ForbiddenValueError` means "draw another mutation", any other
  exception propagates; after 100 forbidden mutations a fresh ConfigSpace sample is used;
* **completion** (`complete`): whatever branch produced it — the random phase, a validated
  mutation, the fallback sample — a proposal gets a value for every hyperparameter of the problem:
  a ConfigSpace configuration holds values for its active hyperparameters only, the absent ones
  get `get_inactive_value_of_hyperparameter` (= `fillInactive`), and NumPy scalars are converted
  to Python values (`.tolist()`; `Val` only has the Python kinds, so a value that stayed a NumPy
  scalar has no counterpart here).  The raw samples — a value or *absent* per hyperparameter — are
  the environment input; the completion happens inside the model, in the random phase and in the
  fallback branch alike.

Seeded choices (`RandomState.choice`, `hp.rvs`, `sample_configuration`) are environment inputs.
The code is modelled after the fixes of branch `fix-g5` (retry on forbidden mutations, placeholder
values not tested by forbidden clauses) and g7's sorted active names.

Core Lean only (no Mathlib).
-/

namespace DH.RegEvo

open DH.Mem

inductive Err
  | badIndex                 -- an index / a name the environment supplied does not exist
  | envShort                 -- the environment supplied too few samples / attempts
  | badSample                -- a ConfigSpace sample that has not one entry per hyperparameter
  | deactRaises (e : DErr)   -- ConfigSpace raised (other than a forbidden mutation)
  deriving DecidableEq, Repr

structure St where
  popSize : Nat
  sampleSize : Nat
  pop : List (Config × Rat)      -- oldest first

/-- one mutation attempt: `hp_name = choice(active names)`, `hp_value = hp.rvs()` -/
structure Attempt where
  name : String
  value : Val

/-- a ConfigSpace configuration as it is sampled: a value for every *active* hyperparameter,
nothing (`none`) for the inactive ones -/
abbrev Sample := List (Option Val)

/-- environment of one child -/
structure ChildEnv where
  idxs : List Nat               -- `choice(population_size, size=sample_size, replace=False)`
  attempts : List Attempt       -- as many as were needed (at most 100 are used)
  fresh : Sample                -- `space.sample_configuration()`, used when every mutation is forbidden

/-- the completion every proposal goes through before it is handed out
(`for hp_name in self._problem.hyperparameter_names: if hp_name not in sample: sample[hp_name] =
get_inactive_value_of_hyperparameter(...)`): a value for every hyperparameter -/
def complete (d : Decl) (s : Sample) : Except Err Config :=
  match fillInactive d.hps s with
  | some x => .ok x
  | none => .error .badSample

def completeAll (d : Decl) : List Sample → Except Err (List Config)
  | [] => .ok []
  | s :: ss =>
    match complete d s, completeAll d ss with
    | .ok x, .ok xs => .ok (x :: xs)
    | .error e, _ => .error e
    | _, .error e => .error e

/-- `deque.append` with `maxlen` -/
def push (popSize : Nat) (pop : List (Config × Rat)) (e : Config × Rat) : List (Config × Rat) :=
  let p := pop ++ [e]
  p.drop (p.length - popSize)

/-- `_tell`: failures (`none`) are not added to the population -/
def tell (st : St) (results : List (Config × Option Rat)) : St :=
  { st with pop := results.foldl (fun pop r =>
      match r.2 with
      | some y => push st.popSize pop (r.1, y)
      | none => pop) st.pop }

/-- `max(samples, key=lambda x: x[1])`: the first sample with the largest objective -/
def best : List (Config × Rat) → Option (Config × Rat)
  | [] => none
  | a :: rest =>
    match best rest with
    | none => some a
    | some b => if a.2 < b.2 then some b else some a

def samplesOf (pop : List (Config × Rat)) : List Nat → Option (List (Config × Rat))
  | [] => some []
  | i :: is =>
    match pop[i]?, samplesOf pop is with
    | some a, some r => some (a :: r)
    | _, _ => none

def hpIndex (d : Decl) (name : String) : Option Nat := d.hps.findIdx? (fun h => h.name == name)

/-- the `for _ in range(self._max_mutation_trials)` loop -/
def mutate (ne : NumEnv) (d : Decl) (parent : Config) (active : List Bool) :
    Nat → List Attempt → Except Err (Option Config)
  | 0, _ => .ok none
  | _ + 1, [] => .error .envShort
  | k + 1, a :: rest =>
    match hpIndex d a.name with
    | none => .error .badIndex
    | some i =>
      if active.getD i false = false then .error .badIndex   -- only active hyperparameters are mutated
      else
        match deactivateCS ne d (parent.set i a.value) with
        | .ok y => .ok (some y)
        | .error .forbidden => mutate ne d parent active k rest
        | .error e => .error (.deactRaises e)

/-- `max(samples, key=...)[0]` over the sampled members of the population -/
def parentOf (st : St) (idxs : List Nat) : Option Config :=
  match samplesOf st.pop idxs with
  | none => none
  | some samples => (best samples).map (·.1)

/-- one child of the regularized evolution -/
def child (ne : NumEnv) (d : Decl) (st : St) (env : ChildEnv) : Except Err Config :=
  match parentOf st env.idxs with
  | none => .error .badIndex
  | some parent =>
    -- active hyperparameters of the parent (`drop_inactive_values` + ConfigSpace's check)
    match deactivateCS ne d parent with
    | .error e => .error (.deactRaises e)
    | .ok p0 =>
      match mutate ne d parent (activeList d p0) 100 env.attempts with
      | .error e => .error e
      -- a validated mutation: `deactivateCS` has already put the placeholders of the inactive
      -- hyperparameters back, the completion finds nothing absent
      | .ok (some y) => .ok y
      -- no valid mutation was found: a new random configuration is sampled — and completed
      | .ok none => complete d env.fresh

def children (ne : NumEnv) (d : Decl) (st : St) : List ChildEnv → Except Err (List Config)
  | [] => .ok []
  | e :: es =>
    match child ne d st e, children ne d st es with
    | .ok x, .ok xs => .ok (x :: xs)
    | .error err, _ => .error err
    | _, .error err => .error err

/-- `RegularizedEvolution._ask(n)`: `fresh` = the `n` ConfigSpace samples of the random phase
(completed here), `envs` = one environment per child (evolution phase) -/
def ask (ne : NumEnv) (d : Decl) (st : St) (n : Nat) (fresh : List Sample) (envs : List ChildEnv) :
    Except Err (List Config) :=
  if st.pop.length < st.popSize then
    if fresh.length = n then completeAll d fresh else .error .envShort
  else
    if envs.length = n then children ne d st envs else .error .envShort

/-- a call of the ask/tell interface of the search -/
inductive Op
  | ask (n : Nat) (fresh : List Sample) (envs : List ChildEnv)
  | tell (results : List (Config × Option Rat))

/-- any sequence of ask/tell calls; returns the final state and all proposals in order -/
def run (ne : NumEnv) (d : Decl) : St → List Op → Except Err (St × List Config)
  | st, [] => .ok (st, [])
  | st, .ask n fresh envs :: rest =>
    match ask ne d st n fresh envs with
    | .error e => .error e
    | .ok X =>
      match run ne d st rest with
      | .error e => .error e
      | .ok (st', Y) => .ok (st', X ++ Y)
  | st, .tell results :: rest => run ne d (tell st results) rest

end DH.RegEvo
