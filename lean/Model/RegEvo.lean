import Model.Membership

/-!
# Model of `RegularizedEvolution._ask` / `_tell` (`deephyper/hpo/_regevo.py`)

* population: a `deque(maxlen=population_size)` of `(configuration, objective)`; `tell` appends
  the non-failed results (the oldest drop out);
* `ask(n)` while the population is not full: `n` fresh ConfigSpace samples completed with the
  canonical inactive values (`Model/Membership.lean`'s `fillInactive`; here the completed sample is
  the environment input);
* `ask(n)` afterwards, for each of the `n` children: draw `sample_size` members of the population
  (`idxs`), take the one with the best objective (the first maximum), compute its active
  hyperparameters (`drop_inactive_values` + ConfigSpace's `deactivate_inactive_hyperparameters`,
  = `deactivateCS`), then up to 100 times: pick ONE active hyperparameter (`name`) and a fresh value
  drawn from it (`value`), write it into a copy of the parent, and deactivate/activate the children
  by the conditions (`deactivateCS` again: drops what became inactive, keeps the placeholder of what
  became active, validates); a `ForbiddenValueError` means "draw another mutation", any other
  exception propagates; after 100 forbidden mutations a fresh sample is used.

Seeded choices (`RandomState.choice`, `hp.rvs`, `sample_configuration`) are environment inputs.
The code is modelled after the fixes of branch `fix-g5` (retry on forbidden mutations, placeholder
values not tested by forbidden clauses) and g7's sorted active names.

Core Lean only (no Mathlib).
-/

namespace DH.RegEvo

open DH.Mem

inductive Err
  | badIndex                 -- an index / a name the environment supplied does not exist
  | envShort                 -- the environment supplied too few samples / attempts
  | deactRaises (e : DErr)   -- ConfigSpace raised (other than a forbidden mutation)
  deriving DecidableEq, Repr

structure St where
  popSize : Nat
  sampleSize : Nat
  pop : List (Config × Rat)      -- oldest first

/-- one mutation attempt: `hp_name = choice(active names)`, `hp_value = hp.rvs()` -/
structure Attempt where
  name : String
  value : Val

/-- environment of one child -/
structure ChildEnv where
  idxs : List Nat               -- `choice(population_size, size=sample_size, replace=False)`
  attempts : List Attempt       -- as many as were needed (at most 100 are used)
  fresh : Config                -- the (completed) fresh sample used when every mutation is forbidden

/-- `deque.append` with `maxlen` -/
def push (popSize : Nat) (pop : List (Config × Rat)) (e : Config × Rat) : List (Config × Rat) :=
  let p := pop ++ [e]
  p.drop (p.length - popSize)

/-- `_tell`: failures (`none`) are not added to the population -/
def tell (st : St) (results : List (Config × Option Rat)) : St :=
  { st with pop := results.foldl (fun pop r =>
      match r.2 with
      | some y => push st.popSize pop (r.1, y)
      | none => pop) st.pop }

/-- `max(samples, key=lambda x: x[1])`: the first sample with the largest objective -/
def best : List (Config × Rat) → Option (Config × Rat)
  | [] => none
  | a :: rest =>
    match best rest with
    | none => some a
    | some b => if a.2 < b.2 then some b else some a

def samplesOf (pop : List (Config × Rat)) : List Nat → Option (List (Config × Rat))
  | [] => some []
  | i :: is =>
    match pop[i]?, samplesOf pop is with
    | some a, some r => some (a :: r)
    | _, _ => none

def hpIndex (d : Decl) (name : String) : Option Nat := d.hps.findIdx? (fun h => h.name == name)

/-- the `for _ in range(self._max_mutation_trials)` loop -/
def mutate (ne : NumEnv) (d : Decl) (parent : Config) (active : List Bool) :
    Nat → List Attempt → Except Err (Option Config)
  | 0, _ => .ok none
  | _ + 1, [] => .error .envShort
  | k + 1, a :: rest =>
    match hpIndex d a.name with
    | none => .error .badIndex
    | some i =>
      if active.getD i false = false then .error .badIndex   -- only active hyperparameters are mutated
      else
        match deactivateCS ne d (parent.set i a.value) with
        | .ok y => .ok (some y)
        | .error .forbidden => mutate ne d parent active k rest
        | .error e => .error (.deactRaises e)

/-- one child of the regularized evolution -/
def child (ne : NumEnv) (d : Decl) (st : St) (env : ChildEnv) : Except Err Config :=
  match samplesOf st.pop env.idxs with
  | none => .error .badIndex
  | some samples =>
    match best samples with
    | none => .error .badIndex
    | some (parent, _) =>
      -- active hyperparameters of the parent (`drop_inactive_values` + ConfigSpace's check)
      match deactivateCS ne d parent with
      | .error e => .error (.deactRaises e)
      | .ok p0 =>
        match mutate ne d parent (activeList d p0) 100 env.attempts with
        | .error e => .error e
        | .ok (some y) => .ok y
        | .ok none => .ok env.fresh

def children (ne : NumEnv) (d : Decl) (st : St) : List ChildEnv → Except Err (List Config)
  | [] => .ok []
  | e :: es =>
    match child ne d st e, children ne d st es with
    | .ok x, .ok xs => .ok (x :: xs)
    | .error err, _ => .error err
    | _, .error err => .error err

/-- `RegularizedEvolution._ask(n)`: `fresh` = the `n` completed ConfigSpace samples (random
phase), `envs` = one environment per child (evolution phase) -/
def ask (ne : NumEnv) (d : Decl) (st : St) (n : Nat) (fresh : List Config) (envs : List ChildEnv) :
    Except Err (List Config) :=
  if st.pop.length < st.popSize then
    if fresh.length = n then .ok fresh else .error .envShort
  else
    if envs.length = n then children ne d st envs else .error .envShort

/-- a call of the ask/tell interface of the search -/
inductive Op
  | ask (n : Nat) (fresh : List Config) (envs : List ChildEnv)
  | tell (results : List (Config × Option Rat))

/-- any sequence of ask/tell calls; returns the final state and all proposals in order -/
def run (ne : NumEnv) (d : Decl) : St → List Op → Except Err (St × List Config)
  | st, [] => .ok (st, [])
  | st, .ask n fresh envs :: rest =>
    match ask ne d st n fresh envs with
    | .error e => .error e
    | .ok X =>
      match run ne d st rest with
      | .error e => .error e
      | .ok (st', Y) => .ok (st', X ++ Y)
  | st, .tell results :: rest => run ne d (tell st results) rest

end DH.RegEvo
