/-!
# Model of `deephyper/ensemble/aggregator/{_mean,_mixed_normal,_mixed_categorical,_mode}.py`

All four aggregators stack the members' predictions along a new axis 0 and reduce that
axis with `np.average(..., weights=weights, axis=0)` (`np.ma.average` when every member is
a `MaskedArray`).  The reduction is element-wise, so the model works on one *cell*
(`MeanAggregator`, `MixedNormalAggregator`) or on one *row of class probabilities*
(`MixedCategoricalAggregator`, `ModeAggregator`) at a time; the harness flattens the
leading axes.  A cell is an `Option Rat`: `none` = masked (the data under a mask does
not exist in the model; that the real code never looks at it is checked by the
correspondence run).

`np.ma.average` computes, per cell, `Σ_{i present} w_i·y_i / Σ_{i present} w_i` and masks the
cell when the denominator is `0` (in particular when no member is present);
`np.average` on plain arrays raises `ZeroDivisionError` when `Σ w_i = 0`.  Both are the
result `none` of `average` (for plain arrays every cell is present, so either every cell
is `none` — the raise — or none is).  `weights=None` is the weight list `1,…,1`.

The model describes the code **after** the fixes of branch `fix-g10`:
* `MeanAggregator(with_scale=True)` works on masked arrays (was `np.ma.square`: AttributeError),
* decomposed `MixedNormalAggregator`: the epistemic part is the *weighted* variance of `loc`
  (was `np.std(loc)`, unweighted — `epiVarUnweighted` below keeps the old formula),
* `ModeAggregator`: the vote is the weighted **average** of the members' one-hot modes
  (weights normalised; was a plain weighted sum — `modeCountsUnnormalised` keeps the old
  formula) and masked members do not vote (they used to vote for class 0).

Scales are standard deviations (`sqrt`); the model returns variances (squares).
Entropy is a parameter `H` of the model.  Core Lean only (no imports).
-/

namespace DH.Aggregate

abbrev Cell := Option Rat

/-- `weights=None` → all ones -/
def weightsOf (ws : Option (List Rat)) (n : Nat) : List Rat :=
  match ws with
  | none => List.replicate n 1
  | some w => w

/-- `Σ w_i` over the present members of a cell -/
def wsum : List Rat → List Cell → Rat
  | w :: ws, some _ :: ys => w + wsum ws ys
  | _ :: ws, none :: ys => wsum ws ys
  | _, _ => 0

/-- `Σ w_i·y_i` over the present members of a cell -/
def wdot : List Rat → List Cell → Rat
  | w :: ws, some y :: ys => w * y + wdot ws ys
  | _ :: ws, none :: ys => wdot ws ys
  | _, _ => 0

/-- `np.(ma.)average(stacked, weights=ws, axis=0)` at one cell -/
def average (ws : List Rat) (ys : List Cell) : Cell :=
  if wsum ws ys = 0 then none else some (wdot ws ys / wsum ws ys)

/-- the members that are present at a cell, with their weights (what "masked entries are
ignored" refers to) -/
def present : List Rat → List Cell → List (Rat × Rat)
  | w :: ws, some y :: ys => (w, y) :: present ws ys
  | _ :: ws, none :: ys => present ws ys
  | _, _ => []

def cellMap (f : Rat → Rat) (ys : List Cell) : List Cell := ys.map (Option.map f)

/-! ### MeanAggregator -/

structure MeanOut where
  loc : Cell
  /-- `scale²` (only meaningful with `with_scale=True`) -/
  var : Cell
deriving Repr, DecidableEq

/-- `MeanAggregator(with_scale).aggregate` at one cell:
`avg = average(y)`, `scale = sqrt(average((y - avg)², weights))` -/
def meanAgg (ws : List Rat) (ys : List Cell) : MeanOut :=
  match average ws ys with
  | none => ⟨none, none⟩
  | some m => ⟨some m, average ws (cellMap (fun y => (y - m) * (y - m)) ys)⟩

/-! ### MixedNormalAggregator -/

/-- `loc**2 + scale**2`, masked where either is masked -/
def secondMoment : List Cell → List Cell → List Cell
  | some l :: ls, some s :: ss => some (l * l + s * s) :: secondMoment ls ss
  | _ :: ls, _ :: ss => none :: secondMoment ls ss
  | _, _ => []

structure NormalOut where
  loc : Cell
  /-- `scale²` of the mixture (`decomposed_scale=False`) -/
  var : Cell
  /-- `scale_aleatoric²` (`decomposed_scale=True`) -/
  aleaVar : Cell
  /-- `scale_epistemic²` (`decomposed_scale=True`) -/
  epiVar : Cell
deriving Repr, DecidableEq

/-- both branches of `MixedNormalAggregator.aggregate` at one cell -/
def mixedNormal (ws : List Rat) (locs scales : List Cell) : NormalOut :=
  match average ws locs with
  | none => ⟨none, none, average ws (cellMap (fun s => s * s) scales), none⟩
  | some m =>
    { loc := some m
      var := (average ws (secondMoment locs scales)).map (fun e => e - m * m)
      aleaVar := average ws (cellMap (fun s => s * s) scales)
      epiVar := average ws (cellMap (fun l => (l - m) * (l - m)) locs) }

/-- the pinned tree's epistemic part: `np.std(loc, axis=0)**2`, the **unweighted** variance
(kept for the regression witness of defect 13a) -/
def epiVarUnweighted (locs : List Cell) : Cell :=
  let ones := List.replicate locs.length (1 : Rat)
  match average ones locs with
  | none => none
  | some m => average ones (cellMap (fun l => (l - m) * (l - m)) locs)

/-! ### categorical rows -/

/-- one sample of one member: class probabilities, or `none` when the row is masked -/
abbrev Row := Option (List Rat)

def vzero (c : Nat) : List Rat := List.replicate c 0
def vadd (a b : List Rat) : List Rat := List.zipWith (· + ·) a b
def vscale (c : Rat) (a : List Rat) : List Rat := a.map (c * ·)

/-- `Σ w_i` over present rows -/
def rsum : List Rat → List Row → Rat
  | w :: ws, some _ :: rs => w + rsum ws rs
  | _ :: ws, none :: rs => rsum ws rs
  | _, _ => 0

/-- `Σ w_i·p_i` (a vector with `c` classes) over present rows -/
def rdot (c : Nat) : List Rat → List Row → List Rat
  | w :: ws, some p :: rs => vadd (vscale w p) (rdot c ws rs)
  | _ :: ws, none :: rs => rdot c ws rs
  | _, _ => vzero c

/-- `np.(ma.)average(y_proba_models, weights, axis=0)` for one sample: `loc` -/
def catLoc (c : Nat) (ws : List Rat) (rows : List Row) : Row :=
  if rsum ws rows = 0 then none else some ((rdot c ws rows).map (· / rsum ws rows))

def rmax (a b : Rat) : Rat := if a ≤ b then b else a

/-- `np.max(p, axis=-1)`; `none` for zero classes (NumPy raises) -/
def vmax : List Rat → Option Rat
  | [] => none
  | x :: xs => some (xs.foldl rmax x)

/-- a per-member scalar statistic of the rows, masked like the rows -/
def rowStat (f : List Rat → Option Rat) (rows : List Row) : List Cell :=
  rows.map (fun r => r.bind f)

structure CatOut where
  loc : Row
  /-- total uncertainty (`decomposed_uncertainty=False` returns only this) -/
  unc : Cell
  alea : Cell
  epi : Cell
deriving Repr, DecidableEq

/-- `1 - max(p)` -/
def conf (p : List Rat) : Option Rat := (vmax p).map (fun m => 1 - m)

/-- `_compute_confidence_uncertainty` / `_compute_entropy_uncertainty` with the per-row
statistic `u` (`conf`, or `some ∘ H` for an entropy `H`):
`total = u(loc)`, `aleatoric = average(u(p_i))`, `epistemic = maximum(0, total - aleatoric)` -/
def catAgg (u : List Rat → Option Rat) (c : Nat) (ws : List Rat) (rows : List Row) : CatOut :=
  let loc := catLoc c ws rows
  let tot : Cell := loc.bind u
  let alea := average ws (rowStat u rows)
  { loc := loc, unc := tot, alea := alea
    epi := match tot, alea with
      | some t, some a => some (rmax 0 (t - a))
      | _, _ => none }

/-- `MixedCategoricalAggregator(uncertainty_method="confidence")` -/
def mixedCategoricalConf (c : Nat) (ws : List Rat) (rows : List Row) : CatOut :=
  catAgg conf c ws rows

/-- `MixedCategoricalAggregator(uncertainty_method="entropy")`, entropy as a parameter -/
def mixedCategoricalEntropy (H : List Rat → Rat) (c : Nat) (ws : List Rat) (rows : List Row) : CatOut :=
  catAgg (fun p => some (H p)) c ws rows

/-! ### ModeAggregator -/

/-- `np.argmax(p)`: index of the first maximum (`0` for an empty row, like the fill) -/
def argmaxFrom : Nat → Nat → Rat → List Rat → Nat
  | _, best, _, [] => best
  | i, best, bv, x :: xs => if bv < x then argmaxFrom (i + 1) i x xs else argmaxFrom (i + 1) best bv xs

def argmax : List Rat → Nat
  | [] => 0
  | x :: xs => argmaxFrom 1 0 x xs

/-- `np.eye(c)[j]` -/
def onehot (c j : Nat) : List Rat := (List.range c).map (fun i => if i = j then 1 else 0)

/-- the members' votes: `eye[argmax(p_i)]`, masked like the member's row -/
def votes (c : Nat) (rows : List Row) : List Row :=
  rows.map (Option.map (fun p => onehot c (argmax p)))

structure ModeOut where
  /-- the weighted vote per class (`weighted_counts`) -/
  counts : Row
  /-- `argmax(weighted_counts)` -/
  loc : Option Nat
  /-- `1 - max(weighted_counts)` -/
  unc : Cell
deriving Repr, DecidableEq

/-- `ModeAggregator(with_uncertainty).aggregate` for one sample (after the fixes):
the weighted average of the members' one-hot modes over the present members -/
def modeAgg (c : Nat) (ws : List Rat) (rows : List Row) : ModeOut :=
  let counts := catLoc c ws (votes c rows)
  { counts := counts, loc := counts.map argmax, unc := counts.bind conf }

/-- the pinned tree's vote for explicit weights: `Σ w_i·eye[argmax p_i]`, **not** divided
by `Σ w_i` (kept for the regression witness of defect 13b) -/
def modeCountsUnnormalised (c : Nat) (ws : List Rat) (rows : List Row) : List Rat :=
  rdot c ws (votes c rows)

/-! ### the argument checks shared by the four `aggregate` methods -/

inductive ArgError | emptyInput | weightsLength | notArray | missingLoc | missingScale | keysDiffer | badMethod
deriving Repr, DecidableEq

/-- inputs that are not lists of arrays at all (the malformed stream of the harness) -/
inductive Malformed
  /-- an element of `y` is not an `ndarray` (e.g. a Python list) -/
  | notArray
  /-- `y = []` -/
  | emptyList
  /-- `MixedNormalAggregator`: the first member has no `"loc"` / no `"scale"` key, or the members' keys differ -/
  | missingLoc | missingScale | keysDiffer
  /-- `MixedCategoricalAggregator(uncertainty_method=…)` not in `{"confidence", "entropy"}` -/
  | badMethod
deriving Repr, DecidableEq

/-- the explicit input validation of the four `aggregate` methods / constructors: which malformed input is
refused with which error (`notArray` is a `TypeError`, the others `ValueError`) -/
def validate : Malformed → ArgError
  | .notArray => .notArray
  | .emptyList => .emptyInput
  | .missingLoc => .missingLoc
  | .missingScale => .missingScale
  | .keysDiffer => .keysDiffer
  | .badMethod => .badMethod

/-- `len(weights) != len(y)` → `ValueError`; empty `y` → `ValueError` (from `np.stack` / the
explicit test).  `n` = number of members. -/
def checkArgs (ws : Option (List Rat)) (n : Nat) : Except ArgError (List Rat) :=
  match ws with
  | some w => if w.length ≠ n then .error .weightsLength else if n = 0 then .error .emptyInput else .ok w
  | none => if n = 0 then .error .emptyInput else .ok (List.replicate n 1)

/-! ### executable checkers for the implementation's own (floating-point) outputs

`tol ≥ 0` absorbs the rounding of the real code; with `tol = 0` these are the exact clauses of the
C19 theorems.  Each is proved equivalent to its specification in `Proofs/AggregateCheck.lean`. -/

/-- class probabilities form a distribution over `c` classes (up to `tol`) -/
def checkSimplex (tol : Rat) (c : Nat) (loc : List Rat) : Bool :=
  loc.length == c && loc.all (fun x => decide (-tol ≤ x)) &&
  decide (loc.sum - 1 ≤ tol) && decide (1 - loc.sum ≤ tol)

/-- the aggregated mean lies between the extremes of the members present at the cell (up to `tol`) -/
def checkBetween (tol : Rat) (ws : List Rat) (ys : List Cell) (a : Rat) : Bool :=
  (present ws ys).any (fun p => decide (p.2 - tol ≤ a)) && (present ws ys).any (fun p => decide (a ≤ p.2 + tol))

/-- total / aleatoric / epistemic uncertainty: in range `[0, hi]` resp. `≥ 0`, and `total = aleatoric + epistemic` -/
def checkUncertainty (tol hi u a e : Rat) : Bool :=
  decide (-tol ≤ u) && decide (u ≤ hi + tol) && decide (-tol ≤ a) && decide (-tol ≤ e) &&
  decide (u - (a + e) ≤ tol) && decide ((a + e) - u ≤ tol)

/-- a single uncertainty value in `[0, hi]` -/
def checkRange (tol hi u : Rat) : Bool := decide (-tol ≤ u) && decide (u ≤ hi + tol)

/-- mixture variance = aleatoric variance + epistemic variance -/
def checkTotalVariance (tol v a e : Rat) : Bool := decide (v - (a + e) ≤ tol) && decide ((a + e) - v ≤ tol)

end DH.Aggregate
