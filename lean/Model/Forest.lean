/-!
# Model of `deephyper/skopt/learning/forest.py` (prediction side)

`RandomForestRegressor.predict` / `ExtraTreesRegressor.predict` in their three forms

* `predict(X)`                                         → `predictMean`
* `predict(X, return_std=True)`                        → `predictStd`   (`_return_mean_and_std`)
* `predict(X, return_std=True, disentangled_std=True)` → `predictDis`   (`_return_mean_and_std_distentangled`)

for ONE query point (the code is vectorised over query points; every column of
the arrays is treated independently).  What a fitted tree contributes at a query
point is the pair

    (tree.predict(x), tree.tree_.impurity[tree.apply(x)])   =  (mean_t, var_t)

scikit-learn's tree fitting is not modelled: the pairs are inputs.

The code accumulates under a lock from `n_jobs` threads

```
out[0] += mean_tree
out[1] += np.maximum(var_tree, min_variance) + mean_tree**2          # _accumulate_prediction
-- resp.  out[1] += np.maximum(var_tree, min_variance); out[2] += mean_tree**2
mean /= len(trees); std /= len(trees)
std = np.sqrt(np.maximum(std - mean**2, 0.0))
-- resp.  std_al /= n; std_ep = std_ep/n - mean**2; std_al[std_al <= 0] = 0; std_ep[std_ep <= 0] = 0; sqrt
```

The order in which the threads take the lock is the environment parameter
`order` (a list of tree indices; with `n_jobs = 1` it is `0,1,…,n-1`).  Standard
deviations are square roots; the model returns the **variances** (what is under
the root), so that everything stays in `Rat`.

Core Lean only (no imports).
-/

namespace DH.Forest

/-- `(mean_t, var_t)` of one tree at the query point -/
abbrev TreeOut := Rat × Rat

/-- `np.maximum(a, b)` -/
def rmax (a b : Rat) : Rat := if a ≤ b then b else a

/-- `np.maximum(v, 0.0)` / `v[v <= 0.0] = 0.0` -/
def clamp0 (v : Rat) : Rat := if v ≤ 0 then 0 else v

/-- a plain sum, head first -/
def sumL : List Rat → Rat
  | [] => 0
  | a :: l => a + sumL l

/-- the trees in the order in which their contributions were added -/
def permute {α : Type} (trees : List α) (order : List Nat) : List α :=
  order.filterMap (fun i => trees[i]?)

/-- `_accumulate_prediction` for every tree, in the given order: `(out[0], out[1])` -/
def accStd (minVar : Rat) (ts : List TreeOut) : Rat × Rat :=
  ts.foldl (fun out t => (out.1 + t.1, out.2 + (rmax t.2 minVar + t.1 * t.1))) (0, 0)

/-- `_accumulate_prediction_disentangled` for every tree: `(out[0], out[1], out[2])` -/
def accDis (minVar : Rat) (ts : List TreeOut) : Rat × Rat × Rat :=
  ts.foldl (fun out t => (out.1 + t.1, out.2.1 + rmax t.2 minVar, out.2.2 + t.1 * t.1)) (0, 0, 0)

/-- scikit-learn's `ForestRegressor.predict`: `y_hat += tree.predict(X)` under a lock -/
def accMean (ts : List TreeOut) : Rat :=
  ts.foldl (fun out t => out + t.1) 0

/-- result of `predict(X, return_std=True)`: mean and **variance** (`std²`) -/
structure StdOut where
  mean : Rat
  var : Rat
deriving Repr, DecidableEq

/-- result of the disentangled form: mean, aleatoric variance, epistemic variance (squares of the stds) -/
structure DisOut where
  mean : Rat
  al : Rat
  ep : Rat
deriving Repr, DecidableEq

/-- tail of `_return_mean_and_std`: `mean /= n; std /= n; std = sqrt(maximum(std - mean**2, 0))` (variance returned) -/
def finishStd (n : Rat) (out : Rat × Rat) : StdOut :=
  let mean := out.1 / n
  let std := out.2 / n
  ⟨mean, rmax (std - mean * mean) 0⟩

/-- tail of `_return_mean_and_std_distentangled` -/
def finishDis (n : Rat) (out : Rat × Rat × Rat) : DisOut :=
  let mean := out.1 / n
  let al := out.2.1 / n
  let ep := out.2.2 / n - mean * mean
  ⟨mean, clamp0 al, clamp0 ep⟩

/-- `predict(X)`.  `none` = no trees (`0/0`, numpy `nan`; scikit-learn never fits 0 trees). -/
def predictMean (trees : List TreeOut) (order : List Nat) : Option Rat :=
  if trees.length = 0 then none
  else some (accMean (permute trees order) / (trees.length : Rat))

/-- `_return_mean_and_std` -/
def predictStd (minVar : Rat) (trees : List TreeOut) (order : List Nat) : Option StdOut :=
  if trees.length = 0 then none
  else some (finishStd (trees.length : Rat) (accStd minVar (permute trees order)))

/-- `_return_mean_and_std_distentangled` -/
def predictDis (minVar : Rat) (trees : List TreeOut) (order : List Nat) : Option DisOut :=
  if trees.length = 0 then none
  else some (finishDis (trees.length : Rat) (accDis minVar (permute trees order)))

/-! ### the specification the three forms are compared against -/

/-- arithmetic mean of the tree means -/
def specMean (trees : List TreeOut) : Rat :=
  sumL (trees.map (·.1)) / (trees.length : Rat)

/-- aleatoric part: average within-leaf variance (floored at `min_variance`) -/
def specAl (minVar : Rat) (trees : List TreeOut) : Rat :=
  sumL (trees.map (fun t => rmax t.2 minVar)) / (trees.length : Rat)

/-- epistemic part: variance of the tree means, `E[m²] − (E m)²` -/
def specEp (trees : List TreeOut) : Rat :=
  sumL (trees.map (fun t => t.1 * t.1)) / (trees.length : Rat) - specMean trees * specMean trees

/-- second moment scale used by the float tolerance rule of the harness:
`aleatoric + E[m_t²]` -/
def specScale (minVar : Rat) (trees : List TreeOut) : Rat :=
  specAl minVar trees + sumL (trees.map (fun t => t.1 * t.1)) / (trees.length : Rat)

end DH.Forest

/-! ### float-tolerance checker used by the correspondence harness

The implementation works in IEEE doubles; `E[m²] − mean²` cancels catastrophically for
large means, so variances are compared with an absolute error relative to the second
moment `specScale`, and the mean relative to the mean absolute tree prediction.  `tolV`
and `tolM` are the (dimensionless) factors, supplied by the harness
(`max(64, 2n+8)·ε` and `4·n·ε`). -/

namespace DH.Forest

def rabs (x : Rat) : Rat := if 0 ≤ x then x else -x

/-- mean absolute tree prediction (scale of the summation error of the mean) -/
def specAbsMean (trees : List TreeOut) : Rat :=
  sumL (trees.map (fun t => rabs t.1)) / (trees.length : Rat)

def closeTo (tol scale got want : Rat) : Bool := decide (rabs (got - want) ≤ tol * scale)

end DH.Forest

/-! ## Extensions: blocks of trees per job, the vectorised batch of query rows, the floor, the `d` acquisitions

### accumulation by blocks of trees

`Parallel(n_jobs=…, require="sharedmem")` hands the trees to `n_jobs` worker threads; each
worker adds the contribution of the trees it was given.  `blocks` lists, per worker (or per joblib
batch), the indices of the trees it handled.  The code adds tree by tree under the lock (the flat
fold over `blocks.flatten`, i.e. `predictStd … blocks.flatten`); a worker that first reduces its
block locally and then adds the partial sums once is the two-level fold below.  Both are the same
function whenever the blocks cover every tree exactly once (`C18_blocks`). -/

namespace DH.Forest

/-- two-level accumulation: every block is reduced on its own, the partial sums are added up -/
def accStdBlocks (minVar : Rat) (blocks : List (List TreeOut)) : Rat × Rat :=
  blocks.foldl (fun out b => (out.1 + (accStd minVar b).1, out.2 + (accStd minVar b).2)) (0, 0)

def accDisBlocks (minVar : Rat) (blocks : List (List TreeOut)) : Rat × Rat × Rat :=
  blocks.foldl (fun out b => (out.1 + (accDis minVar b).1, out.2.1 + (accDis minVar b).2.1,
    out.2.2 + (accDis minVar b).2.2)) (0, 0, 0)

def accMeanBlocks (blocks : List (List TreeOut)) : Rat :=
  blocks.foldl (fun out b => out + accMean b) 0

def predictMeanBlocks (trees : List TreeOut) (blocks : List (List Nat)) : Option Rat :=
  if trees.length = 0 then none
  else some (accMeanBlocks (blocks.map (permute trees)) / (trees.length : Rat))

def predictStdBlocks (minVar : Rat) (trees : List TreeOut) (blocks : List (List Nat)) : Option StdOut :=
  if trees.length = 0 then none
  else some (finishStd (trees.length : Rat) (accStdBlocks minVar (blocks.map (permute trees))))

def predictDisBlocks (minVar : Rat) (trees : List TreeOut) (blocks : List (List Nat)) : Option DisOut :=
  if trees.length = 0 then none
  else some (finishDis (trees.length : Rat) (accDisBlocks minVar (blocks.map (permute trees))))

/-! ### the vectorised batch

The code handles all query rows at once: a tree contributes the vectors `tree.predict(X)` and
`impurity[tree.apply(X)]` (one entry per row of `X`), the accumulators are
`np.zeros((n_outputs, len(X)))` and `+=`, `/=`, `maximum`, `sqrt` act element by element.
`TreeRows` is one tree's output at every row.  `C18_batch` proves that row `j` of the batch result
is the single-point model applied to column `j` — what the single-point theorems are then about. -/

/-- what one fitted tree returns for a batch: `(mean_t[j], var_t[j])` for every query row `j` -/
abbrev TreeRows := List TreeOut

/-- element-wise `a + b` of two vectors (numpy `+=` on arrays of equal shape) -/
def vadd (a b : List Rat) : List Rat := List.zipWith (· + ·) a b

/-- `out = zeros(nrows); for tree in ts: out += g(tree)` — one accumulator array -/
def accVec (g : TreeOut → Rat) (nrows : Nat) (ts : List TreeRows) : List Rat :=
  ts.foldl (fun out t => vadd out (t.map g)) (List.replicate nrows 0)

/-- column `j` of the batch: what every tree says about query row `j` -/
def col (j : Nat) (trees : List TreeRows) : List TreeOut := trees.filterMap (·[j]?)

def predictMeanBatch (nrows : Nat) (trees : List TreeRows) (order : List Nat) : Option (List Rat) :=
  if trees.length = 0 then none
  else some ((accVec (·.1) nrows (permute trees order)).map (· / (trees.length : Rat)))

/-- `_return_mean_and_std` on the whole batch -/
def predictStdBatch (minVar : Rat) (nrows : Nat) (trees : List TreeRows) (order : List Nat) :
    Option (List StdOut) :=
  if trees.length = 0 then none
  else
    let ts := permute trees order
    some (List.zipWith (fun a b => finishStd (trees.length : Rat) (a, b))
      (accVec (·.1) nrows ts) (accVec (fun t => rmax t.2 minVar + t.1 * t.1) nrows ts))

/-- `_return_mean_and_std_distentangled` on the whole batch -/
def predictDisBatch (minVar : Rat) (nrows : Nat) (trees : List TreeRows) (order : List Nat) :
    Option (List DisOut) :=
  if trees.length = 0 then none
  else
    let ts := permute trees order
    some (List.zipWith (fun a bc => finishDis (trees.length : Rat) (a, bc.1, bc.2))
      (accVec (·.1) nrows ts)
      (List.zip (accVec (fun t => rmax t.2 minVar) nrows ts) (accVec (fun t => t.1 * t.1) nrows ts)))

/-! ### which moments the acquisition functions read (`acquisition.py`)

`gaussian_lcb / gaussian_ei / gaussian_pi / gaussian_mes(…, deterministic)`: the plain variants
call `model.predict(X, return_std=True)`, the `d` variants (`LCBd`, `EId`, `PId`, `MESd`) call
`_predict_epistemic_std`, which asks for the disentangled prediction **when the surrogate's
`predict` has a `disentangled_std` parameter** (`hasDis`; both forests do) and keeps the third
value, and falls back to the plain prediction otherwise.  Variances (squares of the stds) again. -/

/-- `(mu, std²)` handed to the acquisition formula -/
def acqMoments (deterministic hasDis : Bool) (minVar : Rat) (trees : List TreeOut) (order : List Nat) :
    Option (Rat × Rat) :=
  if deterministic && hasDis then (predictDis minVar trees order).map (fun d => (d.mean, d.ep))
  else (predictStd minVar trees order).map (fun s => (s.mean, s.var))

/-- `gaussian_lcb` without gradient: `kappa = none` is `kappa == "inf"` (pure exploration, `-std`);
`root` stands for the square root (the model keeps variances) -/
def lcb (root : Rat → Rat) (kappa : Option Rat) (m : Rat × Rat) : Rat :=
  match kappa with
  | none => - root m.2
  | some k => m.1 - k * root m.2

/-- the average of the raw (unfloored) leaf variances — to state where the floor sits -/
def rawAl (trees : List TreeOut) : Rat := sumL (trees.map (·.2)) / (trees.length : Rat)

end DH.Forest

/-! ## The environment of the call: the ambient joblib context

`predict` hands the per-tree tasks to `joblib.Parallel(n_jobs=self.n_jobs, require="sharedmem")`.  Which
backend runs them, and with how many workers, is decided by joblib from the call's own arguments AND from
the context that is active in the caller's code (`with joblib.parallel_config(backend=…, n_jobs=…)`, the
older `parallel_backend(…)`): `joblib.parallel._get_active_backend`, `_get_config_param`,
`Parallel.__init__`, `Parallel.__call__`, `backend.effective_n_jobs`.  Modelled here, at nesting level 0
(`n_jobs = 0` is rejected by joblib with a `ValueError` and is not modelled):

* the call's `n_jobs` wins over the context's, which wins over the backend's default (1); a negative value
  counts from the number of CPUs (`-1` = all of them - the default `n_jobs` of the legacy `parallel_backend`);
* a context backend is used as it is, **unless** the call requires shared memory and the backend has none:
  then the threading backend is used and the context's `n_jobs` is replaced by 1;
* without a context backend the default is loky, replaced by threading when the call prefers threads
  or requires shared memory (context `n_jobs` dropped in the same way);
* `prefer` is only a hint: it never overrides a backend chosen by the caller's context;
* one effective worker means the tasks run sequentially in the calling thread, whatever the backend.

The forest's workers write into arrays of the caller.  A worker that does **not** share memory with
the caller (a loky / multiprocessing worker process) receives pickled copies: its writes never reach the
caller's arrays, which keep their initial zeros (`accStdEnv false = (0, 0)`). -/

namespace DH.Forest

/-- the joblib backends registered by default -/
inductive Backend where
  | sequential | threading | loky | multiprocessing
deriving Repr, DecidableEq

/-- `backend.supports_sharedmem` -/
def Backend.sharedmem : Backend → Bool
  | .sequential => true
  | .threading => true
  | _ => false

/-- `backend.uses_threads` -/
def Backend.usesThreads : Backend → Bool
  | .sequential => true
  | .threading => true
  | _ => false

/-- the context active around the call: `parallel_config(backend=…, n_jobs=…)`; `none` = not set
(`parallel_backend(b)` without `n_jobs` is `⟨some b, some (-1)⟩`: its `n_jobs` defaults to `-1`) -/
structure Ambient where
  backend : Option Backend
  nJobs : Option Int
deriving Repr, DecidableEq

/-- `backend.effective_n_jobs(n)` of the pool backends on a machine with `cpus` CPUs:
`n < 0` → `max(cpus + 1 + n, 1)` -/
def effJobs (cpus : Nat) (n : Int) : Nat :=
  if n < 0 then max (Int.toNat ((cpus : Int) + 1 + n)) 1 else n.toNat

/-- the call-level arguments `Parallel(…, prefer="threads")` / `Parallel(…, require="sharedmem")` -/
structure Hints where
  preferThreads : Bool
  requireSharedmem : Bool
deriving Repr, DecidableEq

/-- what `forest.py` (and scikit-learn's own `ForestRegressor.predict`) passes -/
def codeHints : Hints := ⟨false, true⟩

/-- where the tasks run -/
structure Resolved where
  backend : Backend
  /-- effective number of workers -/
  nEff : Nat
  /-- the tasks run in the calling thread (`n_jobs == 1`: no pool at all) -/
  inCaller : Bool
  /-- the workers' writes reach the caller's arrays -/
  shared : Bool
deriving Repr, DecidableEq

/-- `_get_active_backend(prefer, require)` + the `n_jobs` resolution of `Parallel.__init__` +
`backend.effective_n_jobs` + the sequential shortcut of `Parallel.__call__` -/
def resolve (cpus : Nat) (h : Hints) (a : Ambient) (nJobs : Option Int) : Resolved :=
  let explicit := a.backend.isSome
  let b := a.backend.getD .loky
  let forceThreads := (h.requireSharedmem && !b.sharedmem) ||
    (!explicit && h.preferThreads && !b.usesThreads)
  let b' := if forceThreads then Backend.threading else b
  let ctxJobs : Option Int := if forceThreads then some 1 else a.nJobs
  let n : Int := match nJobs with
    | some k => k
    | none => ctxJobs.getD 1
  let nEff := if b' = .sequential then 1 else effJobs cpus n
  ⟨b', nEff, nEff == 1, nEff == 1 || b'.sharedmem⟩

/-- the caller's accumulators after the parallel loop -/
def accStdEnv (shared : Bool) (minVar : Rat) (ts : List TreeOut) : Rat × Rat :=
  if shared then accStd minVar ts else (0, 0)

def accDisEnv (shared : Bool) (minVar : Rat) (ts : List TreeOut) : Rat × Rat × Rat :=
  if shared then accDis minVar ts else (0, 0, 0)

def accMeanEnv (shared : Bool) (ts : List TreeOut) : Rat :=
  if shared then accMean ts else 0

/-- the three forms called with `hints` inside the context `a` on a forest with `n_jobs = nJobs` -/
def predictMeanEnv (cpus : Nat) (h : Hints) (a : Ambient) (nJobs : Option Int) (trees : List TreeOut) (order : List Nat) :
    Option Rat :=
  if trees.length = 0 then none
  else some (accMeanEnv (resolve cpus h a nJobs).shared (permute trees order) / (trees.length : Rat))

def predictStdEnv (cpus : Nat) (h : Hints) (a : Ambient) (nJobs : Option Int) (minVar : Rat) (trees : List TreeOut)
    (order : List Nat) : Option StdOut :=
  if trees.length = 0 then none
  else some (finishStd (trees.length : Rat) (accStdEnv (resolve cpus h a nJobs).shared minVar (permute trees order)))

def predictDisEnv (cpus : Nat) (h : Hints) (a : Ambient) (nJobs : Option Int) (minVar : Rat) (trees : List TreeOut)
    (order : List Nat) : Option DisOut :=
  if trees.length = 0 then none
  else some (finishDis (trees.length : Rat) (accDisEnv (resolve cpus h a nJobs).shared minVar (permute trees order)))

end DH.Forest
