/-!
# Model of `deephyper/skopt/learning/forest.py` (prediction side)

`RandomForestRegressor.predict` / `ExtraTreesRegressor.predict` in their three forms

* `predict(X)`                                         → `predictMean`
* `predict(X, return_std=True)`                        → `predictStd`   (`_return_mean_and_std`)
* `predict(X, return_std=True, disentangled_std=True)` → `predictDis`   (`_return_mean_and_std_distentangled`)

for ONE query point (the code is vectorised over query points; every column of
the arrays is treated independently).  What a fitted tree contributes at a query
point is the pair

    (tree.predict(x), tree.tree_.impurity[tree.apply(x)])   =  (mean_t, var_t)

scikit-learn's tree fitting is not modelled: the pairs are inputs.

The code accumulates under a lock from `n_jobs` threads

```
out[0] += mean_tree
out[1] += np.maximum(var_tree, min_variance) + mean_tree**2          # _accumulate_prediction
-- resp.  out[1] += np.maximum(var_tree, min_variance); out[2] += mean_tree**2
mean /= len(trees); std /= len(trees)
std = np.sqrt(np.maximum(std - mean**2, 0.0))
-- resp.  std_al /= n; std_ep = std_ep/n - mean**2; std_al[std_al <= 0] = 0; std_ep[std_ep <= 0] = 0; sqrt
```

The order in which the threads take the lock is the environment parameter
`order` (a list of tree indices; with `n_jobs = 1` it is `0,1,…,n-1`).  Standard
deviations are square roots; the model returns the **variances** (what is under
the root), so that everything stays in `Rat`.

Core Lean only (no imports).
-/

namespace DH.Forest

/-- `(mean_t, var_t)` of one tree at the query point -/
abbrev TreeOut := Rat × Rat

/-- `np.maximum(a, b)` -/
def rmax (a b : Rat) : Rat := if a ≤ b then b else a

/-- `np.maximum(v, 0.0)` / `v[v <= 0.0] = 0.0` -/
def clamp0 (v : Rat) : Rat := if v ≤ 0 then 0 else v

/-- a plain sum, head first -/
def sumL : List Rat → Rat
  | [] => 0
  | a :: l => a + sumL l

/-- the trees in the order in which their contributions were added -/
def permute (trees : List TreeOut) (order : List Nat) : List TreeOut :=
  order.filterMap (fun i => trees[i]?)

/-- `_accumulate_prediction` for every tree, in the given order: `(out[0], out[1])` -/
def accStd (minVar : Rat) (ts : List TreeOut) : Rat × Rat :=
  ts.foldl (fun out t => (out.1 + t.1, out.2 + (rmax t.2 minVar + t.1 * t.1))) (0, 0)

/-- `_accumulate_prediction_disentangled` for every tree: `(out[0], out[1], out[2])` -/
def accDis (minVar : Rat) (ts : List TreeOut) : Rat × Rat × Rat :=
  ts.foldl (fun out t => (out.1 + t.1, out.2.1 + rmax t.2 minVar, out.2.2 + t.1 * t.1)) (0, 0, 0)

/-- scikit-learn's `ForestRegressor.predict`: `y_hat += tree.predict(X)` under a lock -/
def accMean (ts : List TreeOut) : Rat :=
  ts.foldl (fun out t => out + t.1) 0

/-- result of `predict(X, return_std=True)`: mean and **variance** (`std²`) -/
structure StdOut where
  mean : Rat
  var : Rat
deriving Repr, DecidableEq

/-- result of the disentangled form: mean, aleatoric variance, epistemic variance (squares of the stds) -/
structure DisOut where
  mean : Rat
  al : Rat
  ep : Rat
deriving Repr, DecidableEq

/-- `predict(X)`.  `none` = no trees (`0/0`, numpy `nan`; scikit-learn never fits 0 trees). -/
def predictMean (trees : List TreeOut) (order : List Nat) : Option Rat :=
  if trees.length = 0 then none
  else some (accMean (permute trees order) / (trees.length : Rat))

/-- `_return_mean_and_std` -/
def predictStd (minVar : Rat) (trees : List TreeOut) (order : List Nat) : Option StdOut :=
  if trees.length = 0 then none
  else
    let n : Rat := (trees.length : Rat)
    let out := accStd minVar (permute trees order)
    let mean := out.1 / n
    let std := out.2 / n
    some ⟨mean, rmax (std - mean * mean) 0⟩

/-- `_return_mean_and_std_distentangled` -/
def predictDis (minVar : Rat) (trees : List TreeOut) (order : List Nat) : Option DisOut :=
  if trees.length = 0 then none
  else
    let n : Rat := (trees.length : Rat)
    let out := accDis minVar (permute trees order)
    let mean := out.1 / n
    let al := out.2.1 / n
    let ep := out.2.2 / n - mean * mean
    some ⟨mean, clamp0 al, clamp0 ep⟩

/-! ### the specification the three forms are compared against -/

/-- arithmetic mean of the tree means -/
def specMean (trees : List TreeOut) : Rat :=
  sumL (trees.map (·.1)) / (trees.length : Rat)

/-- aleatoric part: average within-leaf variance (floored at `min_variance`) -/
def specAl (minVar : Rat) (trees : List TreeOut) : Rat :=
  sumL (trees.map (fun t => rmax t.2 minVar)) / (trees.length : Rat)

/-- epistemic part: variance of the tree means, `E[m²] − (E m)²` -/
def specEp (trees : List TreeOut) : Rat :=
  sumL (trees.map (fun t => t.1 * t.1)) / (trees.length : Rat) - specMean trees * specMean trees

/-- second moment scale used by the float tolerance rule of the harness:
`aleatoric + E[m_t²]` -/
def specScale (minVar : Rat) (trees : List TreeOut) : Rat :=
  specAl minVar trees + sumL (trees.map (fun t => t.1 * t.1)) / (trees.length : Rat)

end DH.Forest

/-! ### float-tolerance checker used by the correspondence harness

The implementation works in IEEE doubles; `E[m²] − mean²` cancels catastrophically for
large means, so variances are compared with an absolute error relative to the second
moment `specScale`, and the mean relative to the mean absolute tree prediction.  `tolV`
and `tolM` are the (dimensionless) factors, supplied by the harness
(`max(64, 2n+8)·ε` and `4·n·ε`). -/

namespace DH.Forest

def rabs (x : Rat) : Rat := if 0 ≤ x then x else -x

/-- mean absolute tree prediction (scale of the summation error of the mean) -/
def specAbsMean (trees : List TreeOut) : Rat :=
  sumL (trees.map (fun t => rabs t.1)) / (trees.length : Rat)

def closeTo (tol scale got want : Rat) : Bool := decide (rabs (got - want) ≤ tol * scale)

end DH.Forest
