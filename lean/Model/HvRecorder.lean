import Model.Hypervolume

/-!
# Model of the hypervolume glue in `deephyper/evaluator/callback.py`

`ObjectiveRecorder.__call__` in its multi-objective branch (every numeric objective is a vector
of the same length `m ≥ 1`; objectives are *maximised*):

    if not isinstance(job.objective, str): self._objectives.append(job.objective)
    if len(self._objectives) == 0: return -inf
    objectives = -np.asarray(self._objectives)
    ref = np.max(objectives, axis=0)
    return hypervolume(objectives, ref)

and the decision logic of `SearchEarlyStopping.on_done` driven by those values.

The state of a recorder is the list of recorded objective vectors in arrival order; a failed job
(objective = a string) is `none`.  `-inf` is `none : Option Rat`.

Core Lean only (the one import is the hypervolume model).
-/

namespace DH.Hypervolume
open DH.Pareto (Vec wdVec)

/-- one row of `-np.asarray(self._objectives)` -/
def negVec (p : Vec) : Vec := p.map (fun x => -x)

/-- componentwise maximum of two rows -/
def vmax (p q : Vec) : Vec := List.zipWith (fun a b => if a ≤ b then b else a) p q

/-- `np.max(objectives, axis=0)`: the componentwise worst point (rows of equal length) -/
def worst : List Vec → Vec
  | [] => []
  | [p] => p
  | p :: q :: ps => vmax p (worst (q :: ps))

/-- the (minimisation) point set the recorder hands to `hypervolume` -/
def recPts (objs : List Vec) : List Vec := objs.map negVec

/-- **specification of the recorded value**: exact hypervolume of ALL objectives recorded so far
w.r.t. their componentwise worst point; `none` (= `-inf`) while nothing is recorded -/
def recValue (objs : List Vec) : Option Rat :=
  if objs.isEmpty then none else some (hv (worst (recPts objs)) (recPts objs))

/-- the same with the evaluator the driver runs -/
def recValueFast (objs : List Vec) : Option Rat :=
  if objs.isEmpty then none else some (hvFast (worst (recPts objs)) (recPts objs))

/-- the value the code computes: `hypervolume(objectives, ref)` (`order` = what `argsort` returned
inside the NDS pre-filter of that call) -/
def recValueCode (objs : List Vec) (order : List Nat) : Option Rat :=
  if objs.isEmpty then none else hypervolumeCode (recPts objs) (worst (recPts objs)) order

/-- `__call__`, state update: a failure (string objective) records nothing -/
def recStep (st : List Vec) : Option Vec → List Vec
  | none => st
  | some v => st ++ [v]

/-- the values returned along a stream of jobs, starting from the history `st` -/
def recRun (st : List Vec) : List (Option Vec) → List (Option Rat)
  | [] => []
  | o :: os => recValue (recStep st o) :: recRun (recStep st o) os

def recRunFast (st : List Vec) : List (Option Vec) → List (Option Rat)
  | [] => []
  | o :: os => recValueFast (recStep st o) :: recRunFast (recStep st o) os

/-- the reference point of a history (`none` while nothing is recorded) -/
def refOf (objs : List Vec) : Option Vec :=
  if objs.isEmpty then none else some (worst (recPts objs))

/-- a reference point kept INCREMENTALLY: one exact componentwise maximum per recorded job (what an
implementation that does not recompute `np.max(objectives, axis=0)` on every call has to maintain);
a failure leaves it alone -/
def refStep (r : Option Vec) : Option Vec → Option Vec
  | none => r
  | some v =>
    match r with
    | none => some (negVec v)
    | some r => some (vmax r (negVec v))

def refRun (r : Option Vec) : List (Option Vec) → Option Vec
  | [] => r
  | o :: os => refRun (refStep r o) os

/-- `a > b` on recorded values (`none` = `-inf`) -/
def gtVal : Option Rat → Option Rat → Bool
  | none, _ => false
  | some _, none => true
  | some a, some b => decide (b < a)

/-- `a ≤ b` on recorded values (`none` = `-inf`) -/
def leVal : Option Rat → Option Rat → Prop
  | none, _ => True
  | some _, none => False
  | some a, some b => a ≤ b

/-- `SearchEarlyStopping`: `_best_objective` (`none` = Python `None`), `_n_lower`, `search_stopped` -/
structure Stopper where
  best : Option (Option Rat)
  nLower : Nat
  stopped : Bool
  deriving Repr, DecidableEq

def Stopper.init : Stopper := ⟨none, 0, false⟩

/-- `SearchEarlyStopping.on_done` with the recorder's value `v` of the job -/
def stopStep (patience : Nat) (threshold : Option Rat) (s : Stopper) (v : Option Rat) : Stopper :=
  let s1 : Stopper :=
    match s.best with
    | none => { s with best := some v }
    | some b => if gtVal v b then { s with best := some v, nLower := 0 } else { s with nLower := s.nLower + 1 }
  if patience ≤ s1.nLower then
    match threshold with
    | none => { s1 with stopped := true }
    | some t => if gtVal (s1.best.getD none) (some t) then { s1 with stopped := true } else s1
  else s1

/-- the stopper states after each value of a stream -/
def stopRun (patience : Nat) (threshold : Option Rat) (s : Stopper) : List (Option Rat) → List Stopper
  | [] => []
  | v :: vs => stopStep patience threshold s v :: stopRun patience threshold (stopStep patience threshold s v) vs

end DH.Hypervolume
