/-!
# Model of the CSV text layer of `results.csv` (C04)

`csv.DictWriter(fp, columns, extrasaction="ignore")` with the default `excel` dialect
(`delimiter=","`, `quotechar='"'`, `doublequote=True`, `quoting=QUOTE_MINIMAL`,
`lineterminator="\r\n"`) and `csv.reader` on the file opened with `newline=""`.

* writer (`_csv.c: join_append_data`): a field is quoted iff it contains the delimiter, the quote
  character or a character of the line terminator (`\r`, `\n`); inside quotes `"` is doubled; a
  record consisting of one empty field is written `""`; records end with `\r\n`.
* reader (`_csv.c: parse_process_char`, non-strict): states START_RECORD, START_FIELD, IN_FIELD,
  IN_QUOTED_FIELD, QUOTE_IN_QUOTED_FIELD, EAT_CRNL.  The file iterator splits lines at `\r`, `\n`,
  `\r\n` without translating them; in this whole-text model a record ends at an unquoted `\r` or
  `\n`, and a `\n` directly after that `\r` belongs to the same terminator (`afterCR`).  A blank
  line is the empty record `[]`; text after a closing quote is appended to the field.

Text is `List Char` (a `String` is converted at the boundary with `toList`); how Python prints a
number (`repr(float)`, `str(int)`) is an environment function of the caller.

Core Lean only (no imports).
-/

namespace DH.Csv

abbrev Text := List Char

/-! ### writer -/

def isSpecial (c : Char) : Bool := c == ',' || c == '"' || c == '\r' || c == '\n'

def needsQuote (s : Text) : Bool := s.any isSpecial

/-- doubling of the quote character -/
def escape : Text → Text
  | [] => []
  | c :: r => if c = '"' then '"' :: '"' :: escape r else c :: escape r

def quoteCell (s : Text) : Text := if needsQuote s then '"' :: (escape s ++ ['"']) else s

/-- fields joined by the delimiter -/
def renderFields : List Text → Text
  | [] => []
  | [f] => quoteCell f
  | f :: g :: r => quoteCell f ++ ',' :: renderFields (g :: r)

/-- `writer.writerow(cells)` -/
def renderLine (cells : List Text) : Text :=
  (match cells with
   | [[]] => ['"', '"']        -- a single empty field is quoted
   | _ => renderFields cells) ++ ['\r', '\n']

/-- `writer.writerows(rows)` (the header line is a row like the others) -/
def renderFile (rows : List (List Text)) : Text := rows.flatMap renderLine

/-! ### reader -/

inductive St
  | startRecord | afterCR | startField | inField | inQuoted | quoteInQuoted
  deriving DecidableEq, Repr

/-- `csv.reader` over the whole text: `f` = field so far, `row` = fields of the record so far -/
def parse : St → Text → List Text → Text → List (List Text)
  | .startRecord, _, _, [] => []
  | .afterCR, _, _, [] => []
  | .startField, f, row, [] => [row ++ [f]]
  | .inField, f, row, [] => [row ++ [f]]
  | .inQuoted, f, row, [] => [row ++ [f]]
  | .quoteInQuoted, f, row, [] => [row ++ [f]]
  | .startRecord, _, _, c :: r =>
    if c = '\r' then [] :: parse .afterCR [] [] r
    else if c = '\n' then [] :: parse .startRecord [] [] r
    else if c = '"' then parse .inQuoted [] [] r
    else if c = ',' then parse .startField [] [[]] r
    else parse .inField [c] [] r
  | .afterCR, _, _, c :: r =>
    if c = '\n' then parse .startRecord [] [] r
    else if c = '\r' then [] :: parse .afterCR [] [] r
    else if c = '"' then parse .inQuoted [] [] r
    else if c = ',' then parse .startField [] [[]] r
    else parse .inField [c] [] r
  | .startField, _, row, c :: r =>
    if c = '\r' then (row ++ [[]]) :: parse .afterCR [] [] r
    else if c = '\n' then (row ++ [[]]) :: parse .startRecord [] [] r
    else if c = '"' then parse .inQuoted [] row r
    else if c = ',' then parse .startField [] (row ++ [[]]) r
    else parse .inField [c] row r
  | .inField, f, row, c :: r =>
    if c = '\r' then (row ++ [f]) :: parse .afterCR [] [] r
    else if c = '\n' then (row ++ [f]) :: parse .startRecord [] [] r
    else if c = ',' then parse .startField [] (row ++ [f]) r
    else parse .inField (f ++ [c]) row r
  | .inQuoted, f, row, c :: r =>
    if c = '"' then parse .quoteInQuoted f row r
    else parse .inQuoted (f ++ [c]) row r
  | .quoteInQuoted, f, row, c :: r =>
    if c = '"' then parse .inQuoted (f ++ ['"']) row r
    else if c = ',' then parse .startField [] (row ++ [f]) r
    else if c = '\r' then (row ++ [f]) :: parse .afterCR [] [] r
    else if c = '\n' then (row ++ [f]) :: parse .startRecord [] [] r
    else parse .inField (f ++ [c]) row r

/-- `list(csv.reader(open(path, newline="")))` -/
def parseFile (t : Text) : List (List Text) := parse .startRecord [] [] t

/-- `dict(zip(header, row)).get(name)` with the first column of that name -/
def lookupByName : List Text → List Text → Text → Option Text
  | h :: hs, c :: cs, name => if h = name then some c else lookupByName hs cs name
  | _, _, _ => none

end DH.Csv
