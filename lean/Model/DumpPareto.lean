import Model.Dump
import Model.Pareto

/-!
# Model of `Search.extend_results_with_pareto_efficient_indicator` (C04)

```
objective_columns = [col for col in df.columns if col.startswith("objective")]
if len(objective_columns) > 1:
    if is_string_dtype(df[objective_columns[0]]): mask_no_failures = ~df[col0].str.startswith("F")
    else: mask_no_failures = ones
    objectives = -df.loc[mask_no_failures, objective_columns].values.astype(float)
    mask_pareto_front = non_dominated_set(objectives)
    df["pareto_efficient"] = False; df.loc[mask_no_failures, "pareto_efficient"] = mask_pareto_front
```

`order` is what `np.argsort` returns inside `non_dominated_set` (environment, see
`Model/Pareto.lean`).  A non-failed line with an objective cell that is not a number makes
`astype(float)` raise (or puts a NaN into the sweep): the model reports `raises` for both.

Core Lean only (imports two other model files).
-/

namespace DH.Dump
open DH.Pareto

def isObjCol : Col → Bool
  | .objective => true
  | .objectiveI _ => true
  | _ => false

/-- `s.startswith("F")` -/
def startsWithF (s : String) : Bool := s.toList.head? == some 'F'

/-- the cells of one line that sit in objective columns -/
def objCellsOf (hdr : List Col) (row : List (Option Val)) : List (Option Val) :=
  (hdr.zip row).filterMap (fun cv => if isObjCol cv.1 then some cv.2 else none)

/-- `df[objective_columns[0]].str.startswith("F")` for one line -/
def rowFailed (cells : List (Option Val)) : Bool :=
  match cells.head? with
  | some (some (.str s)) => startsWithF s
  | _ => false

/-- `-df.loc[...].values.astype(float)` for one line -/
def negCell : Option Val → Option Rat
  | some (.num q) => some (-q)
  | _ => none

def negVec (cells : List (Option Val)) : Option Vec := optMap negCell cells

/-- `df.loc[mask_no_failures, "pareto_efficient"] = mask` over `df["pareto_efficient"] = False` -/
def spread : List Bool → List Bool → List Bool
  | [], _ => []
  | true :: fs, m => false :: spread fs m
  | false :: fs, b :: m => b :: spread fs m
  | false :: fs, [] => false :: spread fs []

inductive ParetoOut
  | noColumn                 -- at most one objective column: nothing is added
  | raises                   -- a successful line has a non-numeric objective cell
  | flags (l : List Bool)    -- the `pareto_efficient` column
  deriving Repr, DecidableEq

def paretoFlags (hdr : List Col) (rows : List (List (Option Val))) (order : List Nat) :
    ParetoOut :=
  if (hdr.filter isObjCol).length ≤ 1 then .noColumn
  else
    let cells := rows.map (objCellsOf hdr)
    match optMap negVec (cells.filter (fun c => !rowFailed c)) with
    | none => .raises
    | some vecs => .flags (spread (cells.map rowFailed) (ndsMask vecs order))

end DH.Dump
