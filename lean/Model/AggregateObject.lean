import Model.Aggregate

/-!
# Aggregator *objects*: several `aggregate()` calls in progress on one instance

`Model/Aggregate.lean` describes what one `aggregate()` call computes from its own members and
weights.  This file describes how the calls use the aggregator **object**: an ensemble that
serves a thread pool, two `EnsemblePredictor`s sharing one aggregator, or a call made while the
(lazily evaluated) weights of another call are being read all have several calls in progress on
the same instance.

Every `aggregate()` first chooses the array namespace it works with

    xp = np                                   -- pc 0
    if all(isinstance(p, MaskedArray) …): xp = np.ma     -- pc 1

and then consults it `reads` times (`xp.stack`, `xp.average`, `xp.sqrt`, `xp.max`, …: pc 2 …).
What a call returns is a function `g` of the namespaces it saw at those uses and of its own
input; the correct statistic is `g` at its *own* namespace (`np.ma` for masked members).

* `stepLocal` — the code after fix `d3ad57e` (branch `fix-c19`): `xp` is a local variable of the
  call, the object is not written.
* `stepShared` — the pinned code: the namespace is the instance attribute `self._np`, written by
  pc 0 / pc 1 of **every** call and read by the uses of every call in progress.

A schedule is a list of events: `enter id call` (a caller invokes `aggregate`) and `step id`
(the call `id` executes its next statement); any interleaving of any number of calls is a
schedule.  Core Lean only.
-/

namespace DH.Aggregate

/-- the array namespace: `np` or `np.ma` -/
inductive Ns | np | ma
deriving Repr, DecidableEq

/-- one `aggregate()` invocation: are all members MaskedArrays, how often does the code consult
the namespace after choosing it, and the call's own input (members, weights) -/
structure Call (α : Type) where
  masked : Bool
  reads : Nat
  x : α

/-- the namespace a call has to work with -/
def Call.own {α : Type} (c : Call α) : Ns := if c.masked then .ma else .np

/-- a call in progress: program counter, the local variable `xp` (fixed code), and the
namespaces it has consulted so far -/
structure Frame (α : Type) where
  call : Call α
  pc : Nat
  xp : Ns
  seen : List Ns

def Frame.start {α : Type} (c : Call α) : Frame α := ⟨c, 0, .np, []⟩

def Frame.done {α : Type} (f : Frame α) : Bool := decide (2 + f.call.reads ≤ f.pc)

/-- what the call returns once it is done: `g` of the namespaces it consulted and its own input -/
def Frame.result {α β : Type} (g : List Ns → α → β) (f : Frame α) : Option β :=
  if f.done then some (g f.seen f.call.x) else none

/-- one statement of the **fixed** code (`xp` local) -/
def stepLocal {α : Type} (f : Frame α) : Frame α :=
  if f.pc = 0 then { f with pc := 1, xp := .np }
  else if f.pc = 1 then { f with pc := 2, xp := if f.call.masked then .ma else f.xp }
  else if f.pc < 2 + f.call.reads then { f with pc := f.pc + 1, seen := f.seen ++ [f.xp] }
  else f

/-- one statement of the **pinned** code (`self._np` on the object: `s`) -/
def stepShared {α : Type} (s : Ns) (f : Frame α) : Ns × Frame α :=
  if f.pc = 0 then (.np, { f with pc := 1 })
  else if f.pc = 1 then (if f.call.masked then .ma else s, { f with pc := 2 })
  else if f.pc < 2 + f.call.reads then (s, { f with pc := f.pc + 1, seen := f.seen ++ [s] })
  else (s, f)

inductive Ev (α : Type)
  | enter (id : Nat) (c : Call α)
  | step (id : Nat)

/-- the calls in progress / finished on the object, newest first -/
abbrev Frames (α : Type) := List (Nat × Frame α)

/-- apply `h` to the newest frame of call `id` -/
def updFrame {α : Type} (id : Nat) (h : Frame α → Frame α) : Frames α → Frames α
  | [] => []
  | (i, f) :: fs => if i = id then (i, h f) :: fs else (i, f) :: updFrame id h fs

/-- the fixed code under a schedule -/
def runLocal {α : Type} : Frames α → List (Ev α) → Frames α
  | fs, [] => fs
  | fs, .enter id c :: es => runLocal ((id, Frame.start c) :: fs) es
  | fs, .step id :: es => runLocal (updFrame id stepLocal fs) es

/-- the newest frame of call `id` -/
def findFrame {α : Type} (id : Nat) : Frames α → Option (Frame α)
  | [] => none
  | (i, f) :: fs => if i = id then some f else findFrame id fs

/-- the pinned code under a schedule: the object state `s` is `self._np` -/
def runShared {α : Type} : Ns → Frames α → List (Ev α) → Ns × Frames α
  | s, fs, [] => (s, fs)
  | s, fs, .enter id c :: es => runShared s ((id, Frame.start c) :: fs) es
  | s, fs, .step id :: es =>
    match findFrame id fs with
    | none => runShared s fs es
    | some f =>
      let r := stepShared s f
      runShared r.1 (updFrame id (fun _ => r.2) fs) es

/-- `xp.average(stacked, weights=ws, axis=0)` at one cell of a stack of **MaskedArray** members with
explicit weights: `np.ma.average` renormalises over the members present at the cell; `np.average`
multiplies (masked-aware) but divides by the weights of **all** members -/
def averageIn : Ns → List Rat → List Cell → Cell
  | .ma, ws, ys => average ws ys
  | .np, ws, ys =>
    if ws.sum = 0 then none else if (present ws ys).isEmpty then none else some (wdot ws ys / ws.sum)

/-- `MeanAggregator().aggregate(y, weights)` on masked members as a function of the namespace seen at
its one use that matters (`xp.average`) -/
def meanLocSeen (seen : List Ns) (x : List Rat × List Cell) : Cell :=
  match seen with
  | [] => none
  | ns :: _ => averageIn ns x.1 x.2

end DH.Aggregate
