/-!
# Model of `deephyper/skopt/moo/_pf.py`

`non_dominated_set`, `non_dominated_set_ranked`, `pareto_front` (index part).

The code (minimisation):

```
order = np.argsort(y.sum(axis=1)); costs = y[order]; is_efficient = arange(n); idx = 0
while idx < len(costs):
    mask = np.any(costs < costs[idx], axis=1); mask[idx] = True
    is_efficient = is_efficient[mask]; costs = costs[mask]
    idx = np.sum(mask[:idx]) + 1
```

is modelled by `sweep pre post` where `pre = costs[:idx]` (survivors before the
pivot) and `post = costs[idx:]` (pivot first).  A row `q` is kept iff it is the
pivot or `∃ i, q_i < pivot_i`, i.e. iff `¬ wd pivot q` where `wd p q` is weak
dominance (`p ≤ q` in every coordinate).  The new `idx` is the number of
survivors before the pivot plus one, i.e. the pivot joins `pre`.

`order` (the result of `argsort`, whose tie-breaking and floating-point sums we
do not model) is an explicit argument: the theorems hold for every permutation.

Core Lean only (no imports).
-/

namespace DH.Pareto

/-- An objective vector. -/
abbrev Vec := List Rat

/-- weak dominance `p ≤ q` in every coordinate (vectors of the same length) -/
def wdVec : Vec → Vec → Bool
  | [], [] => true
  | a :: as, b :: bs => decide (a ≤ b) && wdVec as bs
  | _, _ => false

section generic
variable {P : Type} (wd : P → P → Bool)

/-- the `while idx < len(costs)` loop; `pre = costs[:idx]`, `post = costs[idx:]` -/
def sweep (pre : List P) : List P → List P
  | [] => pre
  | p :: rest => sweep (pre.filter (fun q => !wd p q) ++ [p]) (rest.filter (fun q => !wd p q))
termination_by l => l.length
decreasing_by
  simp only [List.length_cons, List.unattach_filter, List.unattach_attach]
  exact Nat.lt_succ_of_le (List.length_filter_le _ _)

end generic

/-- a row of `costs` together with its index in the caller's array (`is_efficient`) -/
abbrev Row := Nat × Vec

def wdRow (a b : Row) : Bool := wdVec a.2 b.2

/-- rows of the caller's array, in the caller's order -/
def rowsOf (pts : List Vec) : List Row := pts.zipIdx.map (fun (v, i) => (i, v))

/-- `costs = y[order]` with the original indices attached -/
def permuteBy (pts : List Vec) (order : List Nat) : List Row :=
  order.filterMap (fun i => (pts[i]?).map (fun v => (i, v)))

/-- `non_dominated_set(y, return_mask=False)` given what `argsort` returned -/
def ndsIdx (pts : List Vec) (order : List Nat) : List Nat :=
  (sweep wdRow [] (permuteBy pts order)).map (·.1)

/-- `non_dominated_set(y, return_mask=True)` given what `argsort` returned -/
def ndsMask (pts : List Vec) (order : List Nat) : List Bool :=
  let sel := ndsIdx pts order
  (List.range pts.length).map (fun i => sel.contains i)

/-! ### the loop, literally (with `idx` and index arithmetic) -/

/-- one iteration of the `while idx < len(costs)` body, transcribed literally:
`mask = any(costs < costs[idx]); mask[idx] = True; costs = costs[mask];
idx = sum(mask[:idx]) + 1`.  Returns `none` when the loop condition is false. -/
def loopStep (costs : List Row) (idx : Nat) : Option (List Row × Nat) :=
  match costs[idx]? with
  | none => none
  | some pivot =>
    let keep := costs.zipIdx.filter (fun (q, k) => k == idx || !wdRow pivot q)
    some (keep.map (·.1), (keep.filter (fun (_, k) => k < idx)).length + 1)

/-- the whole loop (fuel = an upper bound on the number of iterations, `len(costs)` suffices) -/
def loopIdx : Nat → List Row → Nat → List Row
  | 0, costs, _ => costs
  | fuel + 1, costs, idx =>
    match loopStep costs idx with
    | none => costs
    | some (costs', idx') => loopIdx fuel costs' idx'

/-! ### ranked peeling (`non_dominated_set_ranked`) -/

/-- One `non_dominated_set(y, return_mask=True)` call on the remaining rows:
`ord` is what argsort does to the remaining rows (any permutation). -/
def ndsRows (ord : List Row → List Row) (rem : List Row) : List Nat :=
  (sweep wdRow [] (ord rem)).map (·.1)

/-- the `while len(chosen_indices) < req_number` loop.  `fuel` bounds the number of
rounds (each round removes at least one row; `rankedIdx` supplies `n`). -/
def peel (ord : List Row → List Row) (req : Nat) : Nat → List Nat → List Row → List Nat
  | 0, chosen, _ => chosen
  | fuel + 1, chosen, rem =>
    if chosen.length < req then
      let nds := ndsRows ord rem
      -- chosen_indices.extend(map_indices[nds]) : mask order = order of `rem`
      let chosen' := chosen ++ (rem.filter (fun r => nds.contains r.1)).map (·.1)
      if chosen'.length > req then chosen'.take req
      else peel ord req fuel chosen' (rem.filter (fun r => !nds.contains r.1))
    else chosen

/-- `non_dominated_set_ranked(y, fraction, return_mask=False)` for `0 < req < n`
(`req = ceil(fraction*n)` is computed by the caller, see DESIGN §8); the two
early returns (`req ≤ 0` → nothing, `req ≥ n` → everything) are `rankedMask`. -/
def rankedIdx (ord : List Row → List Row) (pts : List Vec) (req : Nat) : List Nat :=
  peel ord req pts.length [] (rowsOf pts)

def rankedMask (ord : List Row → List Row) (pts : List Vec) (req : Int) : List Bool :=
  let n := pts.length
  if req ≤ 0 then List.replicate n false
  else if req ≥ n then List.replicate n true
  else
    let sel := rankedIdx ord pts req.toNat
    (List.range n).map (fun i => sel.contains i)

/-- Specification of the peeling: the successive fronts of `rem`; front `k+1` is the
non-dominated set of what remains after fronts `1..k` were removed (listed in the order of
the caller's array, as `map_indices[nds]` does). -/
def fronts (ord : List Row → List Row) : Nat → List Row → List (List Nat)
  | 0, _ => []
  | fuel + 1, rem =>
    if rem.isEmpty then []
    else
      let nds := ndsRows ord rem
      (rem.filter (fun r => nds.contains r.1)).map (·.1) ::
        fronts ord fuel (rem.filter (fun r => !nds.contains r.1))

/-! ### `is_pareto_efficient` and `pareto_front(sort=True)` -/

/-- `is_pareto_efficient(new_obj, objvals)` = `np.all(np.any(new_obj < objvals, axis=1))`:
for every row there is a coordinate where `new` is strictly smaller, i.e. no row weakly
dominates `new`. -/
def isParetoEfficient (new : Vec) (objs : List Vec) : Bool := objs.all (fun r => !wdVec r new)

/-- lexicographic order on vectors: what `ndarray.argsort(order=[objective_0, objective_1, …])`
on the structured array of front rows sorts by -/
def lexLe : Vec → Vec → Bool
  | [], _ => true
  | _ :: _, [] => false
  | a :: as, b :: bs => decide (a < b) || (decide (a = b) && lexLe as bs)

/-- index part of `pareto_front(y, sort=True, return_idx=True)` -/
def frontSortedIdx (pts : List Vec) (order : List Nat) : List Nat :=
  (((ndsIdx pts order).filterMap (fun i => (pts[i]?).map (fun v => (i, v)))).mergeSort
    (fun a b => lexLe a.2 b.2)).map (·.1)

/-! ### executable specification (verified checker) -/

/-- strict Pareto dominance under minimisation -/
def dominates (p q : Vec) : Bool := wdVec p q && !wdVec q p

/-- `sel` (indices) is exactly a Pareto-optimal selection of `pts`:
valid duplicate-free indices, pairwise incomparable-or-distinct (antichain under
weak dominance: no selected point is weakly dominated by another selected
point, so neither dominated nor a second copy), and every point of the set is
weakly dominated by a selected one. -/
def checkSel (pts : List Vec) (sel : List Nat) : Bool :=
  sel.all (fun i => i < pts.length) &&
  decide sel.Nodup &&
  sel.all (fun i => sel.all (fun j => i == j ||
    match pts[i]?, pts[j]? with
    | some p, some q => !wdVec p q
    | _, _ => false)) &&
  pts.all (fun x => sel.any (fun j => match pts[j]? with
    | some r => wdVec r x
    | none => false))

/-- checker for the mask form -/
def checkMask (pts : List Vec) (mask : List Bool) : Bool :=
  mask.length == pts.length &&
  checkSel pts ((List.range pts.length).filter (fun i => mask.getD i false))

end DH.Pareto
