import Model.Timeout

/-!
# Several evaluators attached to one storage and one `search_id`

Code: `deephyper/evaluator/_evaluator.py` — `Evaluator.__init__(storage=…, search_id=…)` (an evaluator
created with the `search_id` of an existing search *continues / shares* it: job ids come from the one
counter of the storage, `Job.status` of every job lives in the storage), `gather()` (after
`process_local_tasks_done` it calls `gather_other_jobs_done()` and returns `(local, other)`),
`gather_other_jobs_done`, `num_jobs_submitted` (= all job ids of the search in the storage − offset);
`hpo/_search.py` — `_search` (`n_ask = len(local_results)`, `new_results = local + other`).

```
def gather_other_jobs_done(self):
    job_id_all = self._storage.load_all_job_ids(self._search_id)
    job_id_not_gathered = setdiff1d(job_id_all, self.job_id_submitted + self.job_id_gathered)
    for job_id in job_id_not_gathered:                    # order: environment (sorted *strings*)
        job_data = jobs_data[job_id]
        if job_data and job_data["out"] is not None:      # `collectable`: the owner's `_on_done` stored the output
            job = self._create_job(job_id, …, storage=self._storage)
            if job.status is JobStatus.RUNNING:           # `jOther`
                job.status = JobStatus.DONE
            job.set_output(job_data["out"])
            self.job_id_gathered.append(job_id); self.jobs_done.append(job)
```
(`is not None`: the repaired code; the pinned tree tests the truth value of the stored objective, so an
objective of exactly `0.0` is never collected and the continued search never returns — recorded finding.)

The storage is the list `jobs` of `Model/Timeout.lean` (index = job id; `Job.status` / `Job.log` are the
status in the storage and the history of every write, whoever wrote).  What is private to one `Evaluator`
object is a `Local`; an evaluator acts on the `view` of the world: its own bookkeeping over the shared
`jobs`, `specs`, clock.  `numSubmitted` of the view counts every job of the storage, as the code does.
The view is faithful while the *other* evaluators have nothing in flight (their event loops do not run
while this one acts); the theorems hold for every interleaving regardless.

Core Lean only.
-/

namespace DH.Timeout

/-- the owner's `_on_done` has stored the output of the job in the storage (HPO jobs only): it has been
gathered, or recorded by `close()` -/
def collectable (hpo : Bool) (j : Job) : Bool :=
  hpo && (decide (j.pc = .gathered) || decide (j.pc = .closedOut))

/-- `if job.status is JobStatus.RUNNING: job.status = JobStatus.DONE` on the job rebuilt from the storage -/
def jOther (j : Job) : Job := if j.status = .running then j.write .done else j

/-- ids in the storage that this evaluator neither has in flight nor has gathered, whose output is stored -/
def otherIds (s : Ev) : List Nat :=
  (List.range s.jobs.length).filter (fun i =>
    !s.running.contains i && !s.results.contains i &&
    (match s.jobs[i]? with | some j => collectable s.hpo j | none => false))

/-- `gather_other_jobs_done()`; `orep` = the order in which the jobs of the other evaluators were appended
to `jobs_done` (environment: the storage / `numpy.setdiff1d` order ids as strings).  Contract: exactly
`otherIds`, each once — otherwise `none` -/
def gatherOther (s : Ev) (orep : List Nat) : Option Ev :=
  if decide orep.Nodup && orep.all (fun i => (otherIds s).contains i) &&
      (otherIds s).all (fun i => orep.contains i) then
    some { s with jobs := orep.foldl (fun js i => upd jOther i js) s.jobs, results := s.results ++ orep }
  else none

/-- `gather(...)` of the real code: the local part, then the jobs of the other evaluators -/
def gatherO (s : Ev) (all : Bool) (size : Nat) (rep orep : List Nat) : Ev × Option GErr :=
  let g := gather s all size rep
  match g.2 with
  | some e => (g.1, some e)
  | none =>
    match gatherOther g.1 orep with
    | some s' => (s', none)
    | none => (g.1, some .badEnv)

/-- the `while` loop of `_search` with the results of other evaluators: one `(local, other)` pair of reported
ids per gather; `n_ask = len(local_results)` -/
def loopO (strict : Bool) (target : Int) : Ev → Nat → List (List Nat × List Nat) → Ev × Stop
  | s, nAsk, reps =>
    if target < 0 ∨ numEvals strict s < target then
      let sub := submitCap (askStep s) nAsk
      if sub.2 then (sub.1, .cap)
      else
        match reps with
        | [] => (sub.1, .envExhausted)
        | rep :: rest =>
          let ga := gatherO sub.1 false 1 rep.1 rep.2
          match ga.2 with
          | some .noJobs => (ga.1, .noJobs)
          | some .hang => (ga.1, .hang)
          | some .badEnv => (ga.1, .badEnv)
          | none =>
            if expired ga.1 then (ga.1, .timeout)
            else loopO strict target ga.1 rep.1.length rest
    else (s, .budget)

/-- `search(max_evals, timeout, max_evals_strict)` on an evaluator that shares its storage: as `search`, every
gather also collects the finished jobs of the other evaluators.  The drain loop
`while num_jobs_submitted > num_jobs_gathered: gather("ALL")` ends after one gather or never (a second gather
finds nothing new: `hang`) -/
def searchO (s : Ev) (c : Call) (reps : List (List Nat × List Nat)) (drainRep : List Nat × List Nat) :
    Ev × Stop :=
  let s1 := if c.strict then { s with maxSub := c.maxEvals, offset := (s.results.length : Int) }
            else { s with maxSub := -1 }
  let s2 := setTimeout s1 c.timeout
  let target := if c.maxEvals < 0 then c.maxEvals else c.maxEvals + numEvals c.strict s2
  let lp := loopO c.strict target s2 s2.W reps
  match lp.2 with
  | .noJobs => lp
  | .hang => lp
  | .badEnv => lp
  | .envExhausted => lp
  | stop =>
    if numSubmitted lp.1 > numGathered lp.1 then
      let ga := gatherO lp.1 true 0 drainRep.1 drainRep.2
      match ga.2 with
      | some .noJobs => (ga.1, .noJobs)
      | some .hang => (ga.1, .hang)
      | some .badEnv => (ga.1, .badEnv)
      | none =>
        if numSubmitted ga.1 > numGathered ga.1 then (ga.1, .hang)
        else ((close ga.1 []).1, stop)
    else ((close lp.1 []).1, stop)

/-! ### the world: one storage, several evaluator objects -/

/-- what is private to one `Evaluator` object -/
structure Local where
  W : Nat
  deadline : Option Nat := none
  semGen : Nat := 0
  running : List Nat := []
  results : List Nat := []
  offset : Int := 0
  maxSub : Int := -1
  askDelays : List Nat := []
  deriving Repr

structure World where
  hpo : Bool := true
  specs : List Spec := []
  now : Nat := 0
  jobs : List Job := []            -- the storage: every job of the search, index = job id
  evs : List Local := []
  deriving Repr

/-- the evaluator `l` seen as an evaluator of `Model/Timeout.lean` over the shared storage -/
def view (w : World) (l : Local) : Ev :=
  { W := l.W, hpo := w.hpo, specs := w.specs, now := w.now, deadline := l.deadline, semGen := l.semGen,
    jobs := w.jobs, running := l.running, results := l.results, offset := l.offset, maxSub := l.maxSub,
    askDelays := l.askDelays }

def localOf (s : Ev) : Local :=
  { W := s.W, deadline := s.deadline, semGen := s.semGen, running := s.running, results := s.results,
    offset := s.offset, maxSub := s.maxSub, askDelays := s.askDelays }

def put (w : World) (k : Nat) (s : Ev) : World :=
  { w with now := s.now, jobs := s.jobs, evs := w.evs.set k (localOf s) }

/-- what one evaluator can do -/
inductive Act where
  | op (o : Op)                                   -- any operation of `Model/Timeout.lean` (no other-collection)
  | other (orep : List Nat)                       -- `gather_other_jobs_done()`
  | gatherO (all : Bool) (size : Nat) (rep orep : List Nat)     -- `gather(...)`
  | searchO (c : Call) (reps : List (List Nat × List Nat)) (drainRep : List Nat × List Nat)   -- `search(...)`
  deriving Repr

def act (s : Ev) : Act → Ev
  | .op o => step s o
  | .other orep => (gatherOther s orep).getD s
  | .gatherO all size rep orep => (gatherO s all size rep orep).1
  | .searchO c reps d => (searchO s c reps d).1

/-- evaluator `k` performs `a` -/
def wstep (w : World) (ka : Nat × Act) : World :=
  match w.evs[ka.1]? with
  | some l => put w ka.1 (act (view w l) ka.2)
  | none => w

def wrun (w : World) : List (Nat × Act) → World
  | [] => w
  | ka :: rest => wrun (wstep w ka) rest

/-- `Ws.length` fresh evaluators (evaluator `k` with `Ws[k]` workers) attached to one empty storage -/
def winit (Ws : List Nat) (hpo : Bool) (specs : List Spec) : World :=
  { hpo := hpo, specs := specs, evs := Ws.map (fun W => ({ W := W } : Local)) }

/-- one `search()` call of evaluator `k` with its environment -/
structure WCall where
  k : Nat
  call : Call
  reps : List (List Nat × List Nat)
  drainRep : List Nat × List Nat

/-- a history of `search()` calls made by the evaluators of the world, in order; the stop reasons -/
def wsearches (w : World) : List WCall → World × List Stop
  | [] => (w, [])
  | c :: rest =>
    match w.evs[c.k]? with
    | some l =>
      let r := searchO (view w l) c.call c.reps c.drainRep
      let rr := wsearches (put w c.k r.1) rest
      (rr.1, r.2 :: rr.2)
    | none => wsearches w rest

/-! ### checker over the observations of a history of `search()` calls of several evaluators

`jobs`: one `JobObs` per job of the storage (index = job id; `log` = every status write to the storage, whoever
wrote it, until the end of the history).  `tables`: one entry per returned `search()` call, in history order:
the number of jobs in the storage when it returned and the rows `(job_id, job_status)` of the table it
returned. -/

structure TableObs where
  nJobs : Nat
  rows : List (Nat × Status)
  deriving Repr

structure SharedObs where
  jobs : List JobObs
  tables : List TableObs
  deriving Repr

/-- the status a row reports is the last one written for that job -/
def rowReachedB (jobs : List JobObs) (r : Nat × Status) : Bool :=
  match jobs[r.1]? with
  | some j => j.log.getLast? == some r.2
  | none => false

def checkTable (jobs : List JobObs) (t : TableObs) : Bool :=
  checkStatusLog { jobs := jobs.take t.nJobs, results := t.rows.map (·.1), complete := true } &&
  t.rows.all (rowReachedB jobs)

def checkShared (o : SharedObs) : Bool :=
  o.jobs.all (fun j => monotoneB j.log) && o.tables.all (checkTable o.jobs)

end DH.Timeout
