/-!
# Model of the "which way does the search move" logic of CBO

Code: `deephyper/hpo/_cbo.py` (name maps, `_tell`), `deephyper/skopt/optimizer/optimizer.py`
(`_tell` single- and multi-objective branch, `_moo_scalarize`, `_filter_failures`, the
`do_only_sampling` arg-min of the acquisition), `deephyper/skopt/moo/_multiobjective.py`
(the five scalarisations, `normalize` = utopia point), `deephyper/skopt/utils.py`
(`cook_objective_scaler`), `deephyper/skopt/acquisition.py` (`gaussian_lcb`).

DeepHyper maximises; the optimizer underneath minimises.  `CBO._tell` negates every numeric
objective (`cboTellY`), the optimizer scales the negated objectives column by column
(`scaleIdentity`, `scaleMinMax`; `quantile-uniform` is an environment input with the contract
"order preserving into [0,1]"), scalarises every row after subtracting the utopia point
(`scalarize`, `mooTargets`), fits the surrogate on those targets, evaluates the acquisition
`mu − kappa·std` on the sampled candidates and proposes the first arg-min (`chooseNext`).

The surrogate is NOT modelled: its predictions at the candidates are inputs (`mu`, `sd`).

The model describes the code AFTER the fix of `MoScalarFunction.scalarize` (the utopia point
computed by `normalize()` is subtracted before `_scalarize`); the behaviour before the fix is
kept as `scalarizePre` for the regression witnesses in `Props/C05.lean`.

Everything is rational: Quadratic's `U diag(1,α,…) Uᵀ` (with `U` from the SVD of the weight
column) is `wwᵀ/‖w‖² + α (I − wwᵀ/‖w‖²)`, PBI's `d1 = w·z/‖w‖²` uses the squared norm only.

Core Lean only (no imports).
-/

namespace DH.Direction

abbrev Vec := List Rat

/-! ### name maps of `_cbo.py` (`MAP_x.get(k, k)`) -/

def mapMultiPoint (s : String) : String :=
  if s = "cl_min" then "cl_max"
  else if s = "cl_max" then "cl_min"
  else if s = "qUCB" then "qLCB"
  else if s = "qUCBd" then "qLCBd"
  else s

def mapAcq (s : String) : String :=
  if s = "UCB" then "LCB" else if s = "UCBd" then "LCBd" else s

def mapFilterFailures (s : String) : String :=
  if s = "min" then "max" else s

/-! ### `CBO._tell`: what is handed to the minimising optimizer -/

/-- one cell of an objective returned by the run-function -/
inductive Cell where
  | num (r : Rat)
  | str (s : String)
deriving Repr, DecidableEq

/-- an objective as `CBO._tell` sees it -/
inductive Obj where
  | num (r : Rat)            -- a Python number
  | tup (cells : List Cell)  -- tuple / list
  | str (s : String)         -- e.g. "F", "F_timeout"
deriving Repr, DecidableEq

/-- what `opt.tell` receives for one job -/
inductive ToldY where
  | scal (r : Rat)
  | vec (v : Vec)
  | fail                      -- the string "F"
deriving Repr, DecidableEq

inductive TellOut where
  | told (y : ToldY)
  | skipped                  -- job not passed to the optimizer
  | error (kind : String)    -- the Python code raises
deriving Repr, DecidableEq

def cellsAllNum : List Cell → Option Vec
  | [] => some []
  | .num r :: cs => (cellsAllNum cs).map (r :: ·)
  | .str _ :: _ => none

/-- `any(type(c) is str and "F" == c[0] for c in obj)` on a tuple (short-circuits; `""[0]` raises) -/
def cellsAnyF : List Cell → Except String Bool
  | [] => .ok false
  | .num _ :: cs => cellsAnyF cs
  | .str s :: cs =>
    match s.toList with
    | [] => .error "IndexError"
    | c :: _ => if c = 'F' then .ok true else cellsAnyF cs

/-- the loop body of `CBO._tell` for one job; `ignore` = (`filter_failures == "ignore"`) -/
def cboTellY (ignore : Bool) : Obj → TellOut
  | .num r => .told (.scal (-r))                       -- np.negative(obj).tolist()   !maximizing
  | .tup cells =>
    match cellsAllNum cells with
    | some v => .told (.vec (v.map (fun x => -x)))
    | none =>
      match cellsAnyF cells with
      | .error k => .error k
      | .ok true => if ignore then .skipped else .told .fail
      | .ok false => .skipped                           -- neither branch: silently dropped
  | .str s =>
    match s.toList with
    | [] => .error "UFuncTypeError"                    -- all() over "" is True, np.negative("") raises
    | c :: cs =>
      -- `"F" == obj[0]`, else the generator over the characters of the string
      if c = 'F' ∨ 'F' ∈ cs then (if ignore then .skipped else .told .fail) else .skipped

/-! ### small numeric vocabulary -/

/-- `[f(x) for x in l]` where any `f(x)` may raise -/
def mapOpt {α β : Type} (f : α → Option β) : List α → Option (List β)
  | [] => some []
  | a :: l =>
    match f a, mapOpt f l with
    | some b, some bs => some (b :: bs)
    | _, _ => none

def rabs (x : Rat) : Rat := if 0 ≤ x then x else -x
def rmax (a b : Rat) : Rat := if a ≤ b then b else a
def rmin (a b : Rat) : Rat := if b ≤ a then b else a

def sumL : Vec → Rat
  | [] => 0
  | a :: l => a + sumL l

def dot (a b : Vec) : Rat := sumL (List.zipWith (· * ·) a b)
/-- squared Euclidean norm -/
def nsq (a : Vec) : Rat := dot a a
/-- 1-norm -/
def norm1 (a : Vec) : Rat := sumL (a.map rabs)
def vsub (a b : Vec) : Vec := List.zipWith (· - ·) a b
def smul (c : Rat) (a : Vec) : Vec := a.map (c * ·)
/-- `np.multiply(w, np.abs(z))` -/
def mulAbs (w z : Vec) : Vec := List.zipWith (fun wi zi => wi * rabs zi) w z

/-- `np.max` (raises on an empty array) -/
def maxL : Vec → Option Rat
  | [] => none
  | a :: l => some (l.foldl rmax a)

/-- `np.min(rows, axis=0)` (`none`: no rows) -/
def colMin : List Vec → Option Vec
  | [] => none
  | r :: rs => some (rs.foldl (List.zipWith rmin) r)

def colMax : List Vec → Option Vec
  | [] => none
  | r :: rs => some (rs.foldl (List.zipWith rmax) r)

/-! ### scalarisation (`deephyper/skopt/moo/_multiobjective.py`) -/

inductive Strategy where
  | linear
  | chebyshev
  | augChebyshev (alpha : Rat)   -- default 0.001; the constructor stores |alpha|
  | pbi (penalty : Rat)          -- default 5;     the constructor stores |penalty|
  | quadratic (alpha : Rat)      -- default 10;    the constructor stores |alpha|
deriving Repr, DecidableEq

/-- `_scalarize` of each class on the translated vector `z = y − utopia`.
`none`: the Python code raises or produces nan/inf (empty `np.max`, `‖w‖² = 0`). -/
def core (s : Strategy) (w z : Vec) : Option Rat :=
  match s with
  | .linear => some (dot w z)
  | .chebyshev => maxL (mulAbs w z)
  | .augChebyshev alpha =>
    (maxL (mulAbs w z)).map (fun m => m + rabs alpha * norm1 (mulAbs w z))
  | .pbi penalty =>
    if nsq w = 0 then none
    else
      let d1 := dot w z / nsq w
      let d2 := norm1 (vsub z (smul d1 w))
      some (d1 + rabs penalty * d2)
  | .quadratic alpha =>
    -- zᵀ Q z with Q = wwᵀ/‖w‖² + α (I − wwᵀ/‖w‖²)
    if nsq w = 0 then none
    else some (dot w z * dot w z / nsq w + rabs alpha * (nsq z - dot w z * dot w z / nsq w))

/-- `MoScalarFunction.scalarize(y)` after the fix: translate by the utopia point, then `_scalarize`.
Shapes are checked by numpy broadcasting / `_check_shape`: a mismatch is an error. -/
def scalarize (s : Strategy) (w u y : Vec) : Option Rat :=
  if w.length ≠ y.length ∨ u.length ≠ y.length then none
  else core s w (vsub y u)

/-- the behaviour BEFORE the fix (utopia point ignored) — regression witnesses only -/
def scalarizePre (s : Strategy) (w _u y : Vec) : Option Rat :=
  if w.length ≠ y.length then none else core s w y

/-! ### objective scalers (`cook_objective_scaler`) -/

/-- `FunctionTransformer(lambda x: x)` -/
def scaleIdentity (rows : List Vec) : Option (List Vec) := some rows

/-- `10 * np.finfo(float64).eps` : `MinMaxScaler` treats a smaller data range as zero -/
def tinyRange : Rat := 10 / 4503599627370496

/-- `_handle_zeros_in_scale(data_range)` followed by `scale_ = 1 / data_range` -/
def mmScale (mn mx : Rat) : Rat :=
  let r := mx - mn
  if r < tinyRange then 1 else 1 / r

/-- `MinMaxScaler().fit(rows).transform(rows)`: `X * scale_ + min_`, `min_ = 0 − data_min * scale_` -/
def scaleMinMax (rows : List Vec) : Option (List Vec) :=
  match colMin rows, colMax rows with
  | some mn, some mx =>
    let sc := List.zipWith mmScale mn mx
    let off := List.zipWith (fun m s => 0 - m * s) mn sc
    some (rows.map (fun r => List.zipWith (· + ·) (List.zipWith (· * ·) r sc) off))
  | _, _ => none

/-- `cook_objective_scaler`: what `"auto"` resolves to (`forest` = the base estimator is a
`deephyper.skopt.learning.RandomForestRegressor`, which CBO uses for RF, ET, TB, RS) -/
def cookScalerName (scaler : String) (forest : Bool) : String :=
  if scaler = "auto" then (if forest then "quantile-uniform" else "identity") else scaler

inductive Scaler where
  | identity
  | minmax
  | given (scaled : List Vec)   -- quantile-uniform: the transformed history is an environment input
deriving Repr

def applyScaler : Scaler → List Vec → Option (List Vec)
  | .identity, rows => scaleIdentity rows
  | .minmax, rows => scaleMinMax rows
  | .given scaled, rows => if scaled.length = rows.length then some scaled else none

/-- contract of an environment-supplied scaler on one history: same shape, every column is mapped
by a strictly increasing function (`<` and `=` are preserved) into `[0,1]` -/
def orderPreservingB (raw scaled : List Vec) : Bool :=
  raw.length == scaled.length &&
  (List.zipWith (fun r s => r.length == s.length) raw scaled).all id &&
  scaled.all (fun s => s.all (fun v => decide (0 ≤ v) && decide (v ≤ 1))) &&
  (List.zip raw scaled).all (fun (r, s) => (List.zip raw scaled).all (fun (r', s') =>
    (List.zip (List.zip r s) (List.zip r' s')).all (fun ((a, b), (a', b')) =>
      (decide (a < a') == decide (b < b')) && (decide (a = a') == decide (b = b')))))

/-! ### `Optimizer._moo_scalarize` / the single-objective branch of `Optimizer._tell` -/

/-- multi-objective targets the surrogate is fitted on (no failures, no `moo_upper_bounds`):
scale, `normalize()` = column minimum = utopia point, scalarise every row -/
def mooTargets (sc : Scaler) (s : Strategy) (w : Vec) (told : List Vec) : Option Vec :=
  match applyScaler sc told with
  | none => none
  | some scaled =>
    match colMin scaled with
    | none => none
    | some u => mapOpt (scalarize s w u) scaled

/-- the same with the pre-fix scalarisation (witnesses only) -/
def mooTargetsPre (sc : Scaler) (s : Strategy) (w : Vec) (told : List Vec) : Option Vec :=
  match applyScaler sc told with
  | none => none
  | some scaled =>
    match colMin scaled with
    | none => none
    | some u => mapOpt (scalarizePre s w u) scaled

/-- single-objective targets: `objective_scaler.fit_transform(np.reshape(yi, (-1, 1))).reshape(-1)` -/
def singleTargets (sc : Scaler) (told : Vec) : Option Vec :=
  (applyScaler sc (told.map (fun y => [y]))).map List.flatten

/-! ### `_filter_failures` -/

/-- `yi` with `none` = `"F"`; `mode` is the optimizer-side name (`"mean"`, `"max"`, anything else = keep) -/
def meanL (l : Vec) : Rat := sumL l / (l.length : Rat)

def filterFailures (mode : String) (maxFailures : Nat) (yi : List (Option Rat)) : Except String (List (Option Rat)) :=
  if mode = "mean" ∨ mode = "max" then
    let ok := yi.filterMap id
    match ok with
    | [] =>
      if yi.length ≥ maxFailures then .error "ExhaustedFailures"
      else .ok (yi.map (fun _ => some 0))
    | a :: l =>
      let v := if mode = "mean" then meanL ok else l.foldl rmax a
      .ok (yi.map (fun y => match y with | some r => some r | none => some v))
  else .ok yi

/-- `yi[mask_no_failures] = yi_filtered`: put the computed targets back at the successful positions
(`none` = `"F"`).  `none` result: the number of values does not match the number of successes. -/
def reinsert : List (Option Vec) → Vec → Option (List (Option Rat))
  | [], [] => some []
  | [], _ :: _ => none
  | none :: rest, vals => (reinsert rest vals).map (none :: ·)
  | some _ :: _, [] => none
  | some _ :: rest, v :: vals => (reinsert rest vals).map (some v :: ·)

/-! ### `moo_lower_bounds` (CBO) = `moo_upper_bounds` (optimizer, negated): penalty after scaling -/

/-- `[m if b is None else b for m, b in zip(y_max, self._moo_upper_bounds)]` -/
def upperBounds (bounds : List (Option Rat)) (yMax : Vec) : Vec :=
  List.zipWith (fun m b => match b with | some v => v | none => m) yMax bounds

/-- `MinMaxScaler.transform` of one further row with the parameters fitted on `rows` -/
def scaleRowMinMax (rows : List Vec) (x : Vec) : Option Vec :=
  match colMin rows, colMax rows with
  | some mn, some mx =>
    let sc := List.zipWith mmScale mn mx
    let off := List.zipWith (fun m s => 0 - m * s) mn sc
    some (List.zipWith (· + ·) (List.zipWith (· * ·) x sc) off)
  | _, _ => none

/-- `penalty = np.sum(2 * np.maximum(y - upper_bounds, 0))`, added to every component of the row -/
def penalise (ub : Vec) (r : Vec) : Vec :=
  let p := sumL (List.zipWith (fun y b => 2 * rmax (y - b) 0) r ub)
  r.map (· + p)

/-- `_moo_scalarize` with `moo_upper_bounds` ("Strategy 1: penalty after scaling").  `ubGiven` is the
scaled bound vector when the scaler is an environment input (`quantile-uniform`). -/
def mooTargetsB (sc : Scaler) (s : Strategy) (w : Vec) (bounds : List (Option Rat)) (ubGiven : Vec)
    (told : List Vec) : Option Vec :=
  match applyScaler sc told, colMax told with
  | some scaled, some yMax =>
    let ub := upperBounds bounds yMax
    let ubS : Option Vec := match sc with
      | .identity => some ub
      | .minmax => scaleRowMinMax told ub
      | .given _ => some ubGiven
    match ubS with
    | none => none
    | some ubS =>
      let pen := scaled.map (penalise ubS)
      match colMin pen with
      | none => none
      | some u => mapOpt (scalarize s w u) pen
  | _, _ => none

/-- What the surrogate is fitted on for a history WITH failures (`Optimizer._tell`):
the objective scaler / scalarisation see the successful rows only, the results go back to their
positions, and `_filter_failures` imputes the failures.  `userMode` is CBO's `filter_failures`
(`"min"`, `"mean"`, …), mapped by `mapFilterFailures` before it reaches the optimizer. -/
def fitTargets (single : Bool) (sc : Scaler) (s : Strategy) (w : Vec) (userMode : String)
    (maxFailures : Nat) (told : List (Option Vec))
    (bounds : Option (List (Option Rat)) := none) (ubGiven : Vec := []) : Except String Vec :=
  let ok := told.filterMap id
  match ok with
  | [] => .error "no successful observation to fit the objective scaler on"
  | _ =>
    let t := if single then singleTargets sc (ok.map sumL) else
      match bounds with
      | none => mooTargets sc s w ok
      | some b => mooTargetsB sc s w b ubGiven ok
    match t with
    | none => .error "targets"
    | some tv =>
      match reinsert told tv with
      | none => .error "shape"
      | some yi =>
        match filterFailures (mapFilterFailures userMode) maxFailures yi with
        | .error e => .error e
        | .ok out =>
          match mapOpt id out with
          | some v => .ok v
          | none => .error "a failure string reaches the estimator"

/-! ### several fits on a growing history -/

/-- The targets of every surrogate fit of a history told in batches (one fit per batch): the state
carried from one fit to the next is the list of told values and nothing else — objective scaler,
utopia point and failure imputation are recomputed by `fit` from the full history. -/
def fitsFrom {α : Type} (fit : List (Option Vec) → α) (told : List (Option Vec)) :
    List (List (Option Vec)) → List α
  | [] => []
  | b :: bs => fit (told ++ b) :: fitsFrom fit (told ++ b) bs

def fitsOf {α : Type} (fit : List (Option Vec) → α) (batches : List (List (Option Vec))) : List α :=
  fitsFrom fit [] batches

/-- the behaviour of a scalarisation object that keeps the utopia point of its FIRST fit (the bug
class "stale utopia point"; identity scaler, no failures) — regression witness only -/
def fitsStaleUtopia (s : Strategy) (w : Vec) (batches : List (List Vec)) : List (Option Vec) :=
  match batches with
  | [] => []
  | b :: _ =>
    match colMin b with
    | none => []
    | some u =>
      let rec go (told : List Vec) : List (List Vec) → List (Option Vec)
        | [] => []
        | c :: cs => mapOpt (scalarize s w u) (told ++ c) :: go (told ++ c) cs
      go [] batches

/-! ### verified checker for the proposal (used by the harness on the real `CBO.ask`) -/

def isSucc (succ : List Bool) (c : Nat) : Bool :=
  match succ[c]? with
  | some b => b
  | none => false

/-- `chosen` is one of the candidates, was evaluated successfully, and no successful candidate has
a larger score -/
def checkChoice (score : Vec) (succ : List Bool) (cands : List Nat) (chosen : Nat) : Bool :=
  cands.contains chosen && isSucc succ chosen &&
  match score[chosen]? with
  | none => false
  | some s => cands.all (fun c => !isSucc succ c ||
      match score[c]? with
      | some s' => decide (s' ≤ s)
      | none => false)

/-! ### acquisition and choice -/

/-- `gaussian_lcb`: `mu − kappa·std` per candidate -/
def acqLCB (kappa : Rat) (mu sd : Vec) : Vec :=
  List.zipWith (fun m s => m - kappa * s) mu sd

/-- first index of the minimum, with the running minimum: `np.argmin` -/
def argminFrom (best : Rat) (bi : Nat) (i : Nat) : Vec → Nat
  | [] => bi
  | a :: l => if a < best then argminFrom a i (i + 1) l else argminFrom best bi (i + 1) l

/-- `Xsample[np.argmin(values)]` (index only; `none`: `np.argmin` of an empty array raises) -/
def chooseNext (values : Vec) : Option Nat :=
  match values with
  | [] => none
  | a :: l => some (argminFrom a 0 1 l)

/-- what the surrogate is assumed to do on candidates that were all observed: return the
fitted target of the told point the candidate coincides with (`cands` = index of that point) -/
def interpolate (targets : Vec) (cands : List Nat) : Option Vec :=
  mapOpt (fun i => targets[i]?) cands

/-! ### one-shot batch strategies of `Optimizer.ask` (`topk`, first member of `boltzmann`)

`Optimizer._tell` caches the candidate points `xs` (`_last_Xsample`: what is left of the drawn sample after
`_filter_duplicated`) and the acquisition values computed ON THEM (`_last_values`); `ask(n, "topk")` returns
`[xs[i] for i in np.argsort(values)[:n]]`, `ask(n, "boltzmann")` starts with `xs[np.argmax(-values)]`.
The permutation returned by `np.argsort` is an environment input (its order among ties is the sorting
algorithm's business) with the contract `ArgsortOK` (Proofs/DirectionBatch). -/

/-- positions selected by `topk`: `np.argsort(values)[:n]` -/
def topkIdx (order : List Nat) (n : Nat) : List Nat := order.take n

/-- the configurations returned for selected positions: `[xs[i] for i in idx]` (`none`: `IndexError`) -/
def batchOf {α : Type} (xs : List α) (idx : List Nat) : Option (List α) := mapOpt (fun i => xs[i]?) idx

/-- `idx` is a selection of the `n` smallest entries of `values`: distinct in-range positions, `min n len` of them, and
no position left out has a strictly smaller value than a selected one (decidable form; `IsNSmallest` in Props) -/
def isNSmallestB (values : Vec) (idx : List Nat) (n : Nat) : Bool :=
  idx.length == min n values.length && decide idx.Nodup && idx.all (· < values.length) &&
  idx.all (fun i => (List.range values.length).all (fun j => idx.contains j ||
    match values[i]?, values[j]? with
    | some a, some b => decide (a ≤ b)
    | _, _ => false))

/-- `np.argmax(-values)`: first position of the largest negated value -/
def argmaxNegFrom (best : Rat) (bi : Nat) (i : Nat) : Vec → Nat
  | [] => bi
  | a :: l => if best < -a then argmaxNegFrom (-a) i (i + 1) l else argmaxNegFrom best bi (i + 1) l

/-- first member of a `boltzmann` batch: `np.argmax(-self._last_values)` (`none`: empty array raises) -/
def boltzmannFirst (values : Vec) : Option Nat :=
  match values with
  | [] => none
  | a :: l => some (argmaxNegFrom (-a) 0 1 l)

/-! ### `update_prior=True`: which observations the sampling prior of a real hyperparameter is re-fitted on

`CBO(update_prior=True, update_prior_quantile=p)` hands `q = 1 - p` to the optimizer; after every surrogate fit
`Optimizer._tell` calls `Space.update_prior(Xtransformed, yi, q)` with the FITTED TARGETS `yi` (negated, scaled,
scalarised objectives: smaller is better), and `Real.update_prior` re-fits the kernel-density prior on
`X[y <= np.quantile(y, q)]`.  The kernel-density estimate itself and what is sampled from it are environment. -/

/-- `CBO.__init__`: `"update_prior_quantile": 1 - update_prior_quantile` -/
def cboPriorQuantile (p : Rat) : Rat := 1 - p

def insertAsc (a : Rat) : Vec → Vec
  | [] => [a]
  | b :: l => if a ≤ b then a :: b :: l else b :: insertAsc a l

/-- ascending order of the values (what `np.quantile` interpolates in) -/
def sortAsc : Vec → Vec
  | [] => []
  | a :: l => insertAsc a (sortAsc l)

/-- `np.quantile(y, q)` with the default method `"linear"`: virtual position `(n-1)·q` of the ascending order, linear
interpolation between the two neighbours (`none`: empty input, or `q` outside `[0, 1]` — numpy raises) -/
def quantileLin (y : Vec) (q : Rat) : Option Rat :=
  let s := sortAsc y
  if s.length = 0 ∨ q < 0 ∨ 1 < q then none
  else
    let h := ((s.length : Rat) - 1) * q
    let lo := h.floor.toNat
    match s[lo]?, s[lo + 1]? with
    | some a, some b => some (a + (h - (lo : Rat)) * (b - a))
    | some a, none => some a
    | none, _ => none

/-- `Real.update_prior`: mask of the told points kept for the prior: `y <= np.quantile(y, q)` -/
def priorMask (q : Rat) (y : Vec) : Option (List Bool) :=
  (quantileLin y q).map (fun t => y.map (fun v => decide (v ≤ t)))

/-- the told points (one coordinate) on which the prior is re-fitted: `X[y <= y_]` -/
def priorPoints {α : Type} (q : Rat) (xs : List α) (y : Vec) : Option (List α) :=
  (priorMask q y).map (fun m => (xs.zip m).filterMap (fun p => if p.2 then some p.1 else none))

/-- verified checker for an observed selection (`sel[i]` = "told point `i` is among the points the prior was re-fitted on"):
it is not empty, and nothing left out has a fitted target as small as (= an objective as good as) a selected point's -/
def checkPriorSel (y : Vec) (sel : List Bool) : Bool :=
  sel.length == y.length && sel.any id &&
  (List.range y.length).all (fun i => (List.range y.length).all (fun j =>
    match y[i]?, y[j]?, sel[i]?, sel[j]? with
    | some vi, some vj, some true, some false => decide (vi < vj)
    | _, _, _, _ => true))

/-! ### constant-liar lie / failure replacement under the name maps -/

/-- the lie computed by `Optimizer.ask` on the internal (negated) objectives for an
internal strategy name (`cl_min`, `cl_mean`, anything else is treated as `cl_max`) -/
def lieInternal (strategy : String) : Vec → Rat
  | [] => 0
  | a :: l =>
    if strategy = "cl_min" then l.foldl rmin a
    else if strategy = "cl_mean" then meanL (a :: l)
    else l.foldl rmax a

end DH.Direction
