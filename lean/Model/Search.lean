/-!
# Model of the evaluation budget of `Search.search` (counters level)

Code: `deephyper/hpo/_search.py` (`search`, `_search`) and the budget state of
`deephyper/evaluator/_evaluator.py` (`set_maximum_num_jobs_submitted`,
`num_jobs_submitted`, `num_jobs_gathered`, `_create_tasks`, `gather`, `close`, `timeout`).

```
search(max_evals, timeout, max_evals_strict):
    _check_timeout(timeout)                                   # ValueError if not int > 0
    if max_evals_strict: evaluator.set_maximum_num_jobs_submitted(max_evals)
    else:                evaluator.maximum_num_jobs_submitted = -1      # fix 3b
    if timeout given: evaluator.timeout = timeout
    else:             evaluator.timeout = None                           # fix 3c
    try: _search(...)
    except MaximumJobsSpawnReached: stopped
    while evaluator.num_jobs_submitted > evaluator.num_jobs_gathered:    # drain
        evaluator.gather("ALL"); dump
    evaluator.close(); dump(flush); return read_csv          # None if the file does not exist

_search:
    num_evals = num_jobs_submitted if strict else num_jobs_gathered
    max_evals = max_evals if max_evals < 0 else max_evals + num_evals()
    n_ask = num_workers
    while not stopped and (max_evals < 0 or num_evals() < max_evals):
        batch = ask(n_ask); evaluator.submit(batch)          # may raise MaximumJobsSpawnReached mid-batch
        results = evaluator.gather("BATCH", 1); n_ask = len(results)
        dump; tell(results)
        if time_left is not None and time_left <= 0: stopped = True

set_maximum_num_jobs_submitted(n): maximum_num_jobs_submitted = n
                                   _num_jobs_offset = len(job_id_gathered)   # fix 3a (was: num_jobs_gathered)
num_jobs_submitted = len(storage job ids) - _num_jobs_offset
num_jobs_gathered  = len(job_id_gathered) - _num_jobs_offset
_create_tasks: for each config: if cap > 0 and num_jobs_submitted >= cap: raise MaximumJobsSpawnReached
```

The evaluator is abstracted to the counters the budget logic reads (`stored`,
`gathered`, `running`, `offset`, `maxSub`, `timeoutSet`) plus the number of rows of the
results table.  The environment of one loop iteration (`Step`) is how many
finished jobs `asyncio.wait(FIRST_COMPLETED)` reported (`g`, contract
`1 ≤ g ≤ running`; a value outside the contract is answered with `Stop.badEnv`) and
whether the clock had passed the deadline when `time_left` was read (`expired`).

`Fixes` selects the code before/after each of the three repairs (all `true` = the
repaired code the theorems are about; a `false` gives the pinned behaviour for the
regression witnesses in `Props/C03.lean`).

Core Lean only (no imports).
-/

namespace DH.Search

/-- which of the three repairs are present -/
structure Fixes where
  absOffset : Bool := true     -- 3a: `_num_jobs_offset = len(job_id_gathered)`
  resetCap : Bool := true      -- 3b: cap reset to -1 by a non-strict call
  clearTimeout : Bool := true  -- 3c: `evaluator.timeout = None` when no timeout is passed
  deriving Repr, DecidableEq

/-- the code of the pinned commit -/
def Fixes.pinned : Fixes := { absOffset := false, resetCap := false, clearTimeout := false }

/-- budget state of the evaluator; survives from one `search()` call to the next -/
structure Ev where
  W : Nat                  -- num_workers
  stored : Nat := 0        -- len(storage.load_all_job_ids(search_id)): jobs ever created
  gathered : Nat := 0      -- len(job_id_gathered)
  running : Nat := 0       -- len(_tasks_running)
  offset : Int := 0        -- _num_jobs_offset
  maxSub : Int := -1       -- maximum_num_jobs_submitted
  timeoutSet : Bool := false   -- evaluator.timeout is not None
  pending : Nat := 0       -- len(jobs_done): gathered, not yet written
  rows : Nat := 0          -- rows of results.csv
  asks : List Nat := []    -- history variable: the `n` of every `ask(n)` so far
  deriving Repr, DecidableEq

def numSubmitted (s : Ev) : Int := (s.stored : Int) - s.offset
def numGathered (s : Ev) : Int := (s.gathered : Int) - s.offset

/-- `num_evals()` of `_search` -/
def numEvals (strict : Bool) (s : Ev) : Int := if strict then numSubmitted s else numGathered s

/-- one `search()` call -/
structure Call where
  maxEvals : Int := -1
  strict : Bool := false
  timeout : Option Int := none
  deriving Repr, DecidableEq

/-- environment of one loop iteration -/
structure Step where
  g : Nat            -- number of finished jobs the gather returned
  expired : Bool     -- `time_left <= 0` when read after the gather (ignored if no timeout is set)
  deriving Repr, DecidableEq

inductive Stop where
  | budget        -- loop condition `num_evals() < max_evals` became false
  | cap           -- MaximumJobsSpawnReached raised by submit (caught by `search`)
  | timeout       -- `time_left <= 0` after a gather
  | badTimeout    -- `_check_timeout` raised ValueError (nothing else happened)
  | noJobs        -- gather with nothing running: ValueError("No jobs pending") propagates out of `search`
  | hang          -- drain loop can make no progress (submitted > gathered with nothing running)
  | badEnv        -- the environment broke the contract `1 ≤ g ≤ running`
  | envExhausted  -- the supplied schedule is shorter than the run
  deriving Repr, DecidableEq

/-- `Evaluator.set_maximum_num_jobs_submitted` -/
def setMax (fx : Fixes) (s : Ev) (n : Int) : Ev :=
  { s with maxSub := n,
           offset := if fx.absOffset then (s.gathered : Int) else numGathered s }

/-- `Evaluator._create_tasks` for a batch of `k` configurations; `true` = raised
`MaximumJobsSpawnReached` (the jobs created before the raise stay submitted) -/
def submit (s : Ev) : Nat → Ev × Bool
  | 0 => (s, false)
  | k + 1 =>
    if 0 < s.maxSub ∧ s.maxSub ≤ numSubmitted s then (s, true)
    else submit { s with stored := s.stored + 1, running := s.running + 1 } k

inductive GOut where
  | ok | noJobs | badEnv
  deriving Repr, DecidableEq

/-- `gather("BATCH", 1)` + `process_local_tasks_done`; `g` = |done| reported by `asyncio.wait` -/
def gatherBatch1 (s : Ev) (g : Nat) : Ev × GOut :=
  if s.running = 0 then (s, .noJobs)
  else if g = 0 ∨ s.running < g then (s, .badEnv)
  else ({ s with running := s.running - g, gathered := s.gathered + g, pending := s.pending + g }, .ok)

/-- `gather("ALL")`: `size = len(_tasks_running)`; waits (ALL_COMPLETED) only if `size > 0` -/
def gatherAll (s : Ev) : Ev :=
  { s with running := 0, gathered := s.gathered + s.running, pending := s.pending + s.running }

/-- `dump_jobs_done_to_csv` (internals are C04's model): every job of `jobs_done` becomes a row -/
def dump (s : Ev) : Ev := { s with rows := s.rows + s.pending, pending := 0 }

/-- the `while` loop of `_search`; consumes one `Step` per gather -/
def loop (strict : Bool) (target : Int) : Ev → Nat → List Step → Ev × Stop
  | s, nAsk, env =>
    if target < 0 ∨ numEvals strict s < target then
      let s0 := { s with asks := s.asks ++ [nAsk] }
      let sub := submit s0 nAsk
      if sub.2 then (sub.1, .cap)
      else
        match env with
        | [] => (sub.1, .envExhausted)
        | st :: rest =>
          let ga := gatherBatch1 sub.1 st.g
          match ga.2 with
          | .noJobs => (ga.1, .noJobs)
          | .badEnv => (ga.1, .badEnv)
          | .ok =>
            let s3 := dump ga.1
            if s3.timeoutSet ∧ st.expired then (s3, .timeout)
            else loop strict target s3 st.g rest
    else (s, .budget)

/-- "Collect remaining jobs": `while num_jobs_submitted > num_jobs_gathered: gather("ALL"); dump`.
After one `gather("ALL")` nothing is running, so a second iteration cannot make progress. -/
def drain (s : Ev) : Ev × Bool :=
  if numSubmitted s > numGathered s then
    let s1 := dump (gatherAll s)
    if numSubmitted s1 > numGathered s1 then (s1, true) else (s1, false)
  else (s, false)

/-- `Evaluator.close()` at counters level: tasks still running are cancelled and their jobs
(status READY/RUNNING) are appended to `jobs_done` as CANCELLED.  After a successful drain
nothing is running and this is the identity. -/
def close (s : Ev) : Ev :=
  { s with running := 0, gathered := s.gathered + s.running, pending := s.pending + s.running }

/-- what one `search()` call did -/
structure Out where
  stop : Stop
  evals : Nat            -- jobs created (= run-function invocations) by this call
  table : Option Nat     -- len(returned DataFrame); `none` = `search` returned None / raised
  asks : List Nat        -- the `n` of each `ask(n)` of this call
  deriving Repr, DecidableEq

def mkOut (s s' : Ev) (stop : Stop) (ret : Bool) : Out :=
  { stop := stop, evals := s'.stored - s.stored,
    table := if ret ∧ s'.rows ≠ 0 then some s'.rows else none,
    asks := s'.asks.drop s.asks.length }

/-- `Search.search(max_evals, timeout, max_evals_strict)` -/
def searchCall (fx : Fixes) (s : Ev) (c : Call) (env : List Step) : Ev × Out :=
  if (match c.timeout with | some t => decide (t ≤ 0) | none => false) then
    (s, mkOut s s .badTimeout false)
  else
    let s1 := if c.strict then setMax fx s c.maxEvals
              else if fx.resetCap then { s with maxSub := -1 } else s
    let s2 := match c.timeout with
      | some _ => { s1 with timeoutSet := true }
      | none => if fx.clearTimeout then { s1 with timeoutSet := false } else s1
    let target := if c.maxEvals < 0 then c.maxEvals else c.maxEvals + numEvals c.strict s2
    let lp := loop c.strict target s2 s2.W env
    match lp.2 with
    | .noJobs => (lp.1, mkOut s lp.1 .noJobs false)
    | .badEnv => (lp.1, mkOut s lp.1 .badEnv false)
    | .envExhausted => (lp.1, mkOut s lp.1 .envExhausted false)
    | stop =>
      let dr := drain lp.1
      if dr.2 then (dr.1, mkOut s dr.1 .hang false)
      else
        let s5 := dump (close dr.1)
        (s5, mkOut s s5 stop true)

/-- a sequence of calls on one search object, each with its own schedule -/
def runCalls (fx : Fixes) : Ev → List (Call × List Step) → Ev × List Out
  | s, [] => (s, [])
  | s, (c, env) :: rest =>
    let r := searchCall fx s c env
    let rr := runCalls fx r.1 rest
    (rr.1, r.2 :: rr.2)

/-- a fresh evaluator with `W` workers -/
def init (W : Nat) : Ev := { W := W }

end DH.Search
