import Model.Dump

/-!
# What `Search.search()` hands back (C04)

The end of `Search.search`, after the final `dump_jobs_done_to_csv(flush=True)`:

```
if <this search has no results file>:   return None
self.extend_results_with_pareto_efficient_indicator()
return pd.read_csv(self._path_results)
```

`searchReturn` is the code after the repair (branch `fix-c04`): the table is handed back iff THIS
`Search` object's evaluator has written it (`_start_dumping`, reset by `Search.__init__`).
`searchReturnIfFile` is the test of the code before: `os.path.exists(results.csv)` - a file is there.
The two agree for every `Search` constructed by `searchInit` (an existing file is renamed at
construction, so a file that exists afterwards is this search's own); they differ for a `Search`
constructed before another one wrote the file (`searchInitEarly`) that finishes no evaluation:
the file it finds is the other search's table.

Core Lean + `Model/Dump.lean` only.
-/

namespace DH.Dump

/-- `search()` returns the table of THIS search, or `None` when it wrote nothing -/
def searchReturn (st : DumpState) (t : Table) : Option Table :=
  if st.started then some t else none

/-- the code before the repair: whatever `results.csv` is in the directory -/
def searchReturnIfFile (_st : DumpState) (t : Table) : Option Table :=
  if t.header.isSome then some t else none

/-- the number of data rows handed back (0 for `None`) -/
def returnedRows (r : Option Table) : Nat :=
  match r with
  | some t => t.rows.length
  | none => 0

end DH.Dump
