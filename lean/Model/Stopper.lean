/-!
# Model of `deephyper/stopper/*` driven through `RunningJob.record` / `RunningJob.stopped`

Files mirrored: `_stopper.py` (base `Stopper.observe/stop`), `_asha_stopper.py`
(`SuccessiveHalvingStopper`), `_median_stopper.py` (`MedianStopper`, **as it is after the fixes
"advance the rung at every decision budget" and "an undefined median falls back to the lower middle
value"**; the two earlier states of `stop` are kept as `medianDecideLegacy` / `medianDecideNan`, selected
by `Variant`, for the regression witnesses), `_const_stopper.py`, `_idle_stopper.py`, and the two lines of
`evaluator/_job.py` that forward `record → stopper.observe`, `stopped → stopper.stop`.

A search owns one storage; every job of the search has a metadata dict in it and a private
deep copy of the stopper (`Job.create_running_job`).  A stopper only ever *writes* to the
metadata of its own job (`store_job_metadata(self.job.id, …)`) and *reads* one key from all jobs
of the search (`load_metadata_from_all_jobs`).  The model therefore keeps one record per job,
in creation order: its metadata dict, the attributes of its stopper object, and one ghost flag
(`halted` = the run-function left its loop because `stopped()` returned `True` or raised), used only by
the protocol-level scheduler `protoStep`.

Numbers: budgets / steps / `min_steps` / `reduction_factor` / `min_early_stopping_rate` /
`interval_steps` are naturals (the property's quantifier only uses integers), objectives are
either a number or a non-`Number` (failure string).  A number is a Python float that has an order:
a rational (`ERat.fin`, the exact image of a finite float) or one of the two infinities (`-inf` is what a
diverged run reports as `-loss`), ordered `-inf < finite < +inf` as the floats are (`ERat`).  `nan` has
no order ("at least as good as" is undefined for it) and is outside the model; the one place where the
code's arithmetic can *produce* a `nan` from ordered inputs — `np.median` averaging `-inf` and `+inf` — is
modelled (`ERat.mean … = none`).
Metadata keys are structured (`_completed`, `_completed_rung_<r>`); that the textual rendering of
`<r>` is injective is part of C13 (`Nat.repr`).

Core Lean only (no imports).
-/

namespace DH.Stopper

/-- a Python float that has an order: `-inf`, a finite value (exact rational), `+inf` -/
inductive ERat where
  | negInf
  | fin (q : Rat)
  | posInf
  deriving DecidableEq, Repr, Inhabited

namespace ERat

/-- float `a <= b` -/
def leB : ERat → ERat → Bool
  | negInf, _ => true
  | _, posInf => true
  | fin a, fin b => decide (a ≤ b)
  | _, _ => false

instance : LE ERat := ⟨fun a b => leB a b = true⟩
/-- float `a < b` (for ordered floats: not `b <= a`) -/
instance : LT ERat := ⟨fun a b => leB b a = false⟩
instance (a b : ERat) : Decidable (a ≤ b) := inferInstanceAs (Decidable (leB a b = true))
instance (a b : ERat) : Decidable (a < b) := inferInstanceAs (Decidable (leB b a = false))

/-- float `x + epsilon` with a finite `epsilon`: the infinities absorb it -/
def addFin : ERat → Rat → ERat
  | fin a, e => fin (a + e)
  | negInf, _ => negInf
  | posInf, _ => posInf

/-- float `(a + b) / 2` (what `np.median` does with the two middle values); `none` = `nan` (`-inf + inf`) -/
def mean : ERat → ERat → Option ERat
  | fin a, fin b => some (fin ((a + b) / 2))
  | negInf, posInf => none
  | posInf, negInf => none
  | negInf, _ => some negInf
  | _, negInf => some negInf
  | posInf, _ => some posInf
  | _, posInf => some posInf

instance {n : Nat} : OfNat ERat n := ⟨fin (OfNat.ofNat n)⟩

end ERat

/-- an objective as the stopper sees it: `isinstance(objective, Number)` or not -/
inductive Obj where
  | num (q : ERat)
  | fail (tag : String)
  deriving DecidableEq, Repr, Inhabited

/-- the metadata keys the stoppers use: `"_completed"`, `f"_completed_rung_{r}"` -/
inductive MKey where
  | completed
  | rung (r : Nat)
  deriving DecidableEq, Repr

inductive MVal where
  | bool (b : Bool)
  | obj (o : Obj)
  deriving DecidableEq, Repr

/-- one job's `metadata` dict (insertion ordered, keys unique) -/
abbrev Meta := List (MKey × MVal)

def mget (k : MKey) : Meta → Option MVal
  | [] => none
  | (a, v) :: r => if a = k then some v else mget k r

/-- `d[k] = v` -/
def mset (k : MKey) (v : MVal) : Meta → Meta
  | [] => [(k, v)]
  | (a, w) :: r => if a = k then (a, v) :: r else (a, w) :: mset k v r

/-- attributes of one stopper object (union over the subclasses) -/
structure JS where
  budgets : List Nat := []      -- `observed_budgets`
  objs : List Obj := []         -- `observed_objectives`
  stopCalled : Bool := false    -- `_stop_was_called`
  rung : Nat := 0               -- `_rung`
  doneRungs : List Nat := []    -- `_list_completed_rung` (SHA only)
  deriving DecidableEq, Repr

/-- one job of the search -/
structure JobRec where
  md : Meta := []
  js : JS := {}
  halted : Bool := false        -- ghost: `stopped()` returned True, the run-function left its loop
  deriving DecidableEq, Repr

/-- the search: its jobs in creation order (storage metadata + stopper copies) -/
abbrev Sys := List JobRec

inductive Kind where
  | idle
  | const (stopStep : Nat)
  | sha (minSteps rf mesr minCompeting minFullyCompleted : Nat) (eps : Rat)
  | median (minSteps minCompeting interval : Nat) (eps : Rat)
  deriving Repr

structure Params where
  maxSteps : Nat
  kind : Kind
  deriving Repr

inductive Err where
  | indexError        -- `observations[-1]` / `competing_objectives[-k]` on an empty list
  | zeroDivision      -- `% interval_steps`, `// reduction_factor` with 0
  | keyError          -- unknown job
  deriving DecidableEq, Repr

/-! ### storage access -/

/-- `storage.load_metadata_from_all_jobs(search_id, key)` (values that are not `None`, creation order) -/
def loadAll (s : Sys) (k : MKey) : List MVal := s.filterMap (fun r => mget k r.md)

/-- `[v for v in values if isinstance(v, Number)]` -/
def numbers (l : List MVal) : List ERat :=
  l.filterMap (fun v => match v with
    | .obj (.num q) => some q
    | _ => none)

/-- `_get_competiting_objectives()` for rung `r` -/
def competitors (s : Sys) (r : Nat) : List ERat := numbers (loadAll s (.rung r))

/-- `_num_fully_completed()` : `sum(int(s) for s in stopped)` -/
def numFullyCompleted (s : Sys) : Nat :=
  (loadAll s .completed).countP (fun v => v == .bool true)

/-- `np.sort` (insertion sort: structural, so that concrete runs reduce in the kernel) -/
def insertAsc (x : ERat) : List ERat → List ERat
  | [] => [x]
  | y :: ys => if x ≤ y then x :: y :: ys else y :: insertAsc x ys

def sortAsc (l : List ERat) : List ERat := l.foldr insertAsc []

/-- Python `a[-k]` -/
def negIdx (l : List ERat) (k : Nat) : Option ERat :=
  if 1 ≤ k ∧ k ≤ l.length then l[l.length - k]? else none

/-- `np.median` of a sorted array (`none` = `nan`: the empty array, or the two middle values are `-inf` and `+inf`) -/
def medianSorted (l : List ERat) : Option ERat :=
  let n := l.length
  if n = 0 then none
  else if n % 2 = 1 then l[n / 2]?
  else match l[n / 2 - 1]?, l[n / 2]? with
    | some a, some b => ERat.mean a b
    | _, _ => none

/-- `competing_objectives[(num_competing - 1) // 2]` guarded by `num_competing > 0`: the lower of the two middle values -/
def lowerMiddle (l : List ERat) : Option ERat :=
  if l.length = 0 then none else l[(l.length - 1) / 2]?

/-- the threshold of the median rule **after the fix** "an undefined median falls back to the lower middle value":
`np.median`, and when that is `nan` although there are competitors, the lower middle one -/
def medianThreshold (l : List ERat) : Option ERat :=
  match medianSorted l with
  | some m => some m
  | none => lowerMiddle l

/-! ### `observe` -/

/-- `Stopper.transform_objective`: "by default the identity transformation is used" (the replacement by the
maximum observed so far is commented out in the code); none of the five stoppers overrides it -/
def transformObjective (_js : JS) (o : Obj) : Obj := o

/-- `Stopper.observe` (base class): `objective = self.transform_objective(objective)`, then both lists grow -/
def baseObserve (js : JS) (b : Nat) (o : Obj) : JS :=
  { js with budgets := js.budgets ++ [b], objs := js.objs ++ [transformObjective js o] }

/-- `Stopper.step` : the last observed budget -/
def JS.step (js : JS) : Option Nat := js.budgets.getLast?

/-- `Stopper.objective` / `RunningJob.objective` : the last observed objective (`observations[-1][-1]`) -/
def JS.objective (js : JS) : Option Obj := js.objs.getLast?

/-- `Stopper.observations` : `[observed_budgets, observed_objectives]` (a deep copy) -/
def JS.observations (js : JS) : List Nat × List Obj := (js.budgets, js.objs)

/-- `_compute_halting_budget()` : `(min_steps - 1) + reduction_factor ** (min_early_stopping_rate + rung)` -/
def shaHB (ms rf mesr rung : Nat) : Int := (ms : Int) - 1 + ((rf ^ (mesr + rung) : Nat) : Int)

/-- `MedianStopper._is_halting_budget()`; `none` = `ZeroDivisionError` -/
def medianIsHalting (ms iv step : Nat) : Option Bool :=
  if step < ms then some false
  else if iv = 0 then none
  else some ((step - ms) % iv == 0)

/-- `stopper.observe(budget, objective)` acting on the job's own record -/
def observeRec (P : Params) (jr : JobRec) (b : Nat) (o : Obj) : JobRec × Option Err :=
  let js := baseObserve jr.js b o
  match P.kind with
  | .sha ms rf mesr _ _ _ =>
    let jr1 : JobRec :=
      if shaHB ms rf mesr js.rung ≤ (b : Int) then
        { jr with md := mset (.rung js.rung) (.obj o) jr.md,
                  js := { js with doneRungs := js.doneRungs ++ [js.rung] } }
      else { jr with js := js }
    -- a failure was observed: consider all previous rungs as failed
    match o with
    | .num _ => (jr1, none)
    | .fail _ =>
      ({ jr1 with md := jr1.js.doneRungs.foldl (fun m r => mset (.rung r) (.obj o) m) jr1.md }, none)
  | .median ms _ iv _ =>
    match medianIsHalting ms iv b with
    | none => ({ jr with js := js }, some .zeroDivision)
    | some true =>   -- stores `self.observed_objectives[-1]`, i.e. the transformed objective (SHA stores the raw one)
      ({ jr with md := mset (.rung js.rung) (.obj (transformObjective jr.js o)) jr.md, js := js }, none)
    | some false => ({ jr with js := js }, none)
  | _ => ({ jr with js := js }, none)

/-- `RunningJob.record(budget, objective)` of job `j` -/
def record (P : Params) (s : Sys) (j : Nat) (b : Nat) (o : Obj) : Sys × Option Err :=
  match s[j]? with
  | none => (s, some .keyError)
  | some jr => let (jr', e) := observeRec P jr b o; (s.set j jr', e)

/-! ### `stop` -/

/-- `Stopper.stop` (base class) on the job's own record -/
def baseStop (P : Params) (jr : JobRec) : JobRec × Except Err Bool :=
  let jr1 : JobRec :=
    if jr.js.stopCalled then jr
    else { jr with js := { jr.js with stopCalled := true }, md := mset .completed (.bool false) jr.md }
  match jr1.js.objs.getLast?, jr1.js.budgets.getLast? with
  | some (.fail _), _ => (jr1, .ok true)
  | some (.num _), some b =>
    if P.maxSteps ≤ b then ({ jr1 with md := mset .completed (.bool true) jr1.md }, .ok true)
    else (jr1, .ok false)
  | _, _ => (jr1, .error .indexError)

def bumpRung (jr : JobRec) : JobRec := { jr with js := { jr.js with rung := jr.js.rung + 1 } }

/-- the part of `SuccessiveHalvingStopper.stop` after `super().stop()` returned False;
`s` is the storage *after* the base class wrote `_completed`, `q`/`b` the last observation -/
def shaDecide (ms rf mesr mc mfc : Nat) (eps : Rat) (s : Sys) (jr : JobRec) (b : Nat) (q : ERat) :
    JobRec × Except Err Bool :=
  if (b : Int) < shaHB ms rf mesr jr.js.rung then (jr, .ok false)
  else if 0 < mfc ∧ numFullyCompleted s < mfc then (bumpRung jr, .ok false)
  else
    let comp := sortAsc (competitors s jr.js.rung)
    let n := comp.length
    if n < mc then (jr, .ok true)
    else if rf = 0 then (jr, .error .zeroDivision)
    else
      let k := if n / rf = 0 then 1 else n / rf
      match negIdx comp k with
      | none => (jr, .error .indexError)
      | some top =>
        if top ≤ q.addFin eps then (bumpRung jr, .ok false) else (jr, .ok true)

/-- the part of `MedianStopper.stop` after `super().stop()` returned False (fixed code: the rung advances at
every decision budget that does not stop the job; an undefined median — the two middle values are `-inf` and
`+inf` — falls back to the lower middle value) -/
def medianDecide (ms mc iv : Nat) (eps : Rat) (s : Sys) (jr : JobRec) (b : Nat) (q : ERat) :
    JobRec × Except Err Bool :=
  match medianIsHalting ms iv b with
  | none => (jr, .error .zeroDivision)
  | some false => (jr, .ok false)
  | some true =>
    let comp := sortAsc (competitors s jr.js.rung)
    if comp.length < mc then (bumpRung jr, .ok false)
    else match medianThreshold comp with
      | none => (jr, .ok true)          -- median of nothing is nan: `x >= nan` is False
      | some med => if med ≤ q.addFin eps then (bumpRung jr, .ok false) else (jr, .ok true)

/-- `MedianStopper.stop` before the fix "an undefined median falls back to the lower middle value":
`x >= nan` is False, so every evaluation judged against the middle values `-inf`, `+inf` was stopped -/
def medianDecideNan (ms mc iv : Nat) (eps : Rat) (s : Sys) (jr : JobRec) (b : Nat) (q : ERat) :
    JobRec × Except Err Bool :=
  match medianIsHalting ms iv b with
  | none => (jr, .error .zeroDivision)
  | some false => (jr, .ok false)
  | some true =>
    let comp := sortAsc (competitors s jr.js.rung)
    if comp.length < mc then (bumpRung jr, .ok false)
    else match medianSorted comp with
      | none => (jr, .ok true)
      | some med => if med ≤ q.addFin eps then (bumpRung jr, .ok false) else (jr, .ok true)

/-- the pinned `MedianStopper.stop` (before both fixes): with too few competitors the rung did not advance -/
def medianDecideLegacy (ms mc iv : Nat) (eps : Rat) (s : Sys) (jr : JobRec) (b : Nat) (q : ERat) :
    JobRec × Except Err Bool :=
  match medianIsHalting ms iv b with
  | none => (jr, .error .zeroDivision)
  | some false => (jr, .ok false)
  | some true =>
    let comp := sortAsc (competitors s jr.js.rung)
    if comp.length < mc then (jr, .ok false)
    else match medianSorted comp with
      | none => (jr, .ok true)
      | some med => if med ≤ q.addFin eps then (bumpRung jr, .ok false) else (jr, .ok true)

/-- which `MedianStopper.stop` is run: the repaired code (what the theorems are about), or one of the two
earlier states of the code kept for the regression witnesses -/
inductive Variant where
  | fixed     -- the code after both repairs
  | preRung   -- the pinned code: the rung does not advance with too few competitors (and `nan` median stops)
  | preNan    -- the rung fix applied, the `nan` median still stops
  deriving DecidableEq, Repr

/-- the subclass part of `stop`, given the last observation -/
def decide' (v : Variant) (P : Params) (s : Sys) (jr : JobRec) (b : Nat) (q : ERat) : JobRec × Except Err Bool :=
  match P.kind with
  | .idle => (jr, .ok false)
  | .const stopStep => (jr, .ok (decide (stopStep ≤ b)))
  | .sha ms rf mesr mc mfc eps => shaDecide ms rf mesr mc mfc eps s jr b q
  | .median ms mc iv eps =>
    match v with
    | .fixed => medianDecide ms mc iv eps s jr b q
    | .preRung => medianDecideLegacy ms mc iv eps s jr b q
    | .preNan => medianDecideNan ms mc iv eps s jr b q

/-- `RunningJob.stopped()` of job `j` -/
def stoppedGen (legacy : Variant) (P : Params) (s : Sys) (j : Nat) : Sys × Except Err Bool :=
  match s[j]? with
  | none => (s, .error .keyError)
  | some jr =>
    match baseStop P jr with
    | (jr1, .error e) => (s.set j jr1, .error e)
    | (jr1, .ok true) => (s.set j jr1, .ok true)
    | (jr1, .ok false) =>
      match jr1.js.objs.getLast?, jr1.js.budgets.getLast? with
      | some (.num q), some b =>
        let s1 := s.set j jr1
        let (jr2, r) := decide' legacy P s1 jr1 b q
        (s1.set j jr2, r)
      | _, _ => (s.set j jr1, .error .indexError)   -- unreachable (baseStop returned False)

def stopped (P : Params) (s : Sys) (j : Nat) : Sys × Except Err Bool := stoppedGen .fixed P s j

/-- `storage.create_new_job` + `Job.create_running_job(stopper)` -/
def addJob (s : Sys) : Sys := s ++ [({} : JobRec)]

/-! ### the documented protocol: `record(step, objective)` then `stopped()`, budgets 1,2,3,…,
leave the loop when told to stop -/

inductive Ev where
  | add                          -- a new job is created
  | step (j : Nat) (o : Obj)     -- job `j` makes its next observation with objective `o`, then asks `stopped()`
  deriving Repr

/-- result of one protocol step: `none` = nothing happened (unknown or halted job, new job) -/
abbrev Dec := Option (Except Err Bool)

def markHalted (s : Sys) (j : Nat) : Sys :=
  match s[j]? with
  | none => s
  | some jr => s.set j { jr with halted := true }

def protoStepGen (legacy : Variant) (P : Params) (s : Sys) : Ev → Sys × Dec
  | .add => (addJob s, none)
  | .step j o =>
    match s[j]? with
    | none => (s, none)
    | some jr =>
      if jr.halted then (s, none)
      else
        match record P s j (jr.js.budgets.length + 1) o with
        | (s1, some e) => (markHalted s1 j, some (.error e))     -- `record` raised: the run-function is dead
        | (s1, none) =>
          match stoppedGen legacy P s1 j with
          | (s2, .ok false) => (s2, some (.ok false))
          | (s2, r) => (markHalted s2 j, some r)                  -- told to stop (or `stopped` raised)

def protoStep (P : Params) (s : Sys) (e : Ev) : Sys × Dec := protoStepGen .fixed P s e

/-- run a whole schedule; returns the final system and the decisions in order -/
def protoRunGen (legacy : Variant) (P : Params) : Sys → List Ev → Sys × List Dec
  | s, [] => (s, [])
  | s, e :: es =>
    let (s1, d) := protoStepGen legacy P s e
    let (s2, ds) := protoRunGen legacy P s1 es
    (s2, d :: ds)

def protoRun (P : Params) (s : Sys) (es : List Ev) : Sys × List Dec := protoRunGen .fixed P s es

/-- the state after a schedule -/
def reach (P : Params) (es : List Ev) : Sys := (protoRun P [] es).1

/-! ### the property's clauses over an observed trace, and their checker

A trace lists, in the order they happened, `(job, budget, objective recorded, what stopped() answered)`.
`TraceSpec` states the clauses budget / failure / best-survives / sha-topk of the property over such a trace
(no reference to the model above); `checkStopTrace` decides it and is run by the driver on the traces of
the REAL stoppers. -/

structure TEv where
  job : Nat
  step : Nat
  obj : Obj
  stop : Bool
  deriving Repr

def Obj.isFail : Obj → Bool
  | .fail _ => true
  | .num _ => false

/-- the job observed a failure in the events `pre` -/
def failedIn (pre : List TEv) (j : Nat) : Bool := pre.any (fun e => e.job == j && e.obj.isFail)

/-- the numbers other evaluations recorded at budget `b` in the earlier events `pre` -/
def othersAt (pre : List TEv) (j b : Nat) : List ERat :=
  pre.filterMap (fun e => if e.job ≠ j ∧ e.step = b then (match e.obj with | .num q => some q | .fail _ => none) else none)

/-- … leaving out the evaluations that failed since (successive halving forgets their rungs) -/
def liveOthersAt (pre : List TEv) (j b : Nat) : List ERat :=
  pre.filterMap (fun e => if e.job ≠ j ∧ e.step = b ∧ failedIn pre e.job = false then
    (match e.obj with | .num q => some q | .fail _ => none) else none)

/-- the clauses "never cuts the best" / "only outside the top 1/rf" apply to these stoppers -/
def Params.bestApplies (P : Params) : Bool :=
  match P.kind with
  | .median _ _ _ _ => true
  | .sha _ _ _ mc _ _ => mc == 0
  | _ => false

def Params.topkRf (P : Params) : Option Nat :=
  match P.kind with
  | .sha _ rf _ mc _ _ => if mc = 0 then some rf else none
  | _ => none

/-- among `n = |others| + 1` competitors at least `max 1 (n / rf)` are better than `q` -/
def OutsideTop (rf : Nat) (others : List ERat) (q : ERat) : Prop :=
  max 1 ((others.length + 1) / rf) ≤ others.countP (fun v => decide (q < v))

/-- the clauses for one event `e` that happened after the events `pre` -/
structure EvSpec (P : Params) (pre : List TEv) (e : TEv) : Prop where
  budget : P.maxSteps ≤ e.step → e.stop = true
  failure : e.obj.isFail = true → e.stop = true
  best : P.bestApplies = true → e.stop = true → e.step < P.maxSteps → ∀ q, e.obj = .num q →
    ∃ v ∈ othersAt pre e.job e.step, q < v
  topk : ∀ rf, P.topkRf = some rf → e.stop = true → e.step < P.maxSteps → ∀ q, e.obj = .num q →
    OutsideTop rf (liveOthersAt pre e.job e.step) q ∨ OutsideTop rf (othersAt pre e.job e.step) q

/-- every event of the trace satisfies the clauses, given the events before it -/
def TraceSpec (P : Params) (t : List TEv) : Prop :=
  ∀ pre e post, t = pre ++ e :: post → EvSpec P pre e

def outsideTop (rf : Nat) (others : List ERat) (q : ERat) : Bool :=
  decide (max 1 ((others.length + 1) / rf) ≤ others.countP (fun v => decide (q < v)))

def evOK (P : Params) (pre : List TEv) (e : TEv) : Bool :=
  (decide (P.maxSteps ≤ e.step) → e.stop) &&
  (e.obj.isFail → e.stop) &&
  (match e.obj with
   | .fail _ => true
   | .num q =>
     if e.stop && decide (e.step < P.maxSteps) then
       (P.bestApplies → (othersAt pre e.job e.step).any (fun v => decide (q < v))) &&
       (match P.topkRf with
        | none => true
        | some rf => outsideTop rf (liveOthersAt pre e.job e.step) q || outsideTop rf (othersAt pre e.job e.step) q)
     else true)

def checkFrom (P : Params) : List TEv → List TEv → Bool
  | _, [] => true
  | pre, e :: rest => evOK P pre e && checkFrom P (pre ++ [e]) rest

/-- the verified checker -/
def checkStopTrace (P : Params) (t : List TEv) : Bool := checkFrom P [] t

/-- (diagnostics only) the first event that violates a clause -/
def firstBad (P : Params) : List TEv → List TEv → Nat → Option Nat
  | _, [], _ => none
  | pre, e :: rest, i => if evOK P pre e then firstBad P (pre ++ [e]) rest (i + 1) else some i

end DH.Stopper
