import warnings, collections, itertools
warnings.filterwarnings("ignore")
import numpy as np
from deephyper.hpo import HpProblem, CBO
from deephyper.evaluator import Evaluator
import tempfile
async def run(job): return 0.0
class J:
    def __init__(s,c,o): s.c=c;s.o=o
    def __iter__(s): return iter((s.c,s.o))
def trial(surrogate, scaler, strat, offset, nobj, weights=None, seed=0):
    p = HpProblem(); p.add_hyperparameter((0,9),"a")
    ev = Evaluator.create(run, method="serial")
    s = CBO(p, ev, random_state=seed, log_dir=tempfile.mkdtemp(), surrogate_model=surrogate, acq_func="UCB", kappa=0.0, scheduler={"type":"periodic-exp-decay","period":10,"rate":0.0},
            n_initial_points=10, n_points=300, filter_duplicated=False, objective_scaler=scaler, moo_scalarization_strategy=strat, moo_scalarization_weight=weights)
    s._setup_optimizer()
    jobs=[]
    for a in range(10):
        if nobj==1: o = float(a)+offset
        else: o = tuple(float(a)+offset for _ in range(nobj))   # all objectives increase with a: maximiser a=9
        jobs.append(J({"a":a}, o))
    s._opt.sampled = []
    s.tell(jobs)
    x = s.ask(1)[0]
    return x["a"]
for surrogate in ["ET","RF","GP"]:
  for scaler in ["auto","identity","minmax","quantile-uniform"]:
    for strat in ["Linear","Chebyshev","AugChebyshev","PBI","Quadratic"]:
      res=[]
      for offset in [100.0, -100.0, -4.5]:
        for nobj in [1,2]:
          if nobj==1 and strat!="Linear": continue
          try: res.append((offset,nobj,trial(surrogate,scaler,strat,offset,nobj,weights=[0.5,0.5] if nobj==2 else None)))
          except Exception as e: res.append((offset,nobj,"EXC "+type(e).__name__+str(e)[:60]))
      print(surrogate, scaler, strat, res)
