import asyncio, heapq, time, warnings
warnings.filterwarnings("ignore")
class VLoop(asyncio.SelectorEventLoop):
    def __init__(self):
        super().__init__(); self._vt = 0.0
    def time(self): return self._vt
    def _run_once(self):
        # drop cancelled timer heads, then if nothing ready jump the clock to next timer
        while self._scheduled and self._scheduled[0]._cancelled:
            h = heapq.heappop(self._scheduled); h._scheduled=False
            self._timer_cancelled_count -= 1
        if not self._ready and self._scheduled:
            self._vt = max(self._vt, self._scheduled[0]._when)
        else:
            self._vt += 1e-3
        super()._run_once()
class VPolicy(asyncio.DefaultEventLoopPolicy):
    def new_event_loop(self):
        l = VLoop(); VPolicy.last = l; return l
asyncio.set_event_loop_policy(VPolicy())
import deephyper.evaluator._evaluator as E
E.time.time  # module time
class VT:
    @staticmethod
    def time():
        l = getattr(VPolicy,"last",None); return l.time() if l else 0.0
    def __getattr__(self,k): return getattr(time,k)
E.time = VT()
from deephyper.evaluator import Evaluator
waits=[]
_orig_wait = asyncio.wait
async def spy_wait(fs, **kw):
    d,p = await _orig_wait(fs, **kw)
    waits.append(sorted(t.get_name() for t in d))
    return d,p
E.asyncio.wait = spy_wait   # same module object as asyncio -> patches globally; fine for harness
log=[]
async def run(job):
    await asyncio.sleep(job.parameters["d"]); log.append((job.id, VPolicy.last.time())); return job.parameters["x"]
t0=time.time()
ev = Evaluator.create(run, method="serial", method_kwargs={"num_workers":2})
ev.submit([{"x":i,"d":d} for i,d in enumerate([5,5,3,100,1])])
r = ev.gather("BATCH",1); print("g1",[j.id for j in r], waits[-1])
r = ev.gather("BATCH",2); print("g2",[j.id for j in r])
ev.timeout = 50
ev.submit([{"x":9,"d":500}])
r = ev.gather("ALL"); print("g3",[(j.id,j.status.name) for j in r])
print(log, "real", time.time()-t0)
