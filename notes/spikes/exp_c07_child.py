import sys, json, warnings, tempfile, random
warnings.filterwarnings("ignore")
import numpy as np
cfg=json.loads(sys.argv[1]); perturb=int(sys.argv[2])
np.random.seed(perturb); random.seed(perturb); [np.random.rand() for _ in range(perturb)]
import ConfigSpace as cs
from deephyper.hpo import HpProblem, CBO, RandomSearch, RegularizedEvolution
from deephyper.evaluator import Evaluator
async def run(job): return 0.0
class J:
    def __init__(s,c,o): s.c=c;s.o=o
    def __iter__(s): return iter((s.c,s.o))
p=HpProblem()
a=p.add_hyperparameter((1,64,"log-uniform"),"i_log"); p.add_hyperparameter((-1.5,2.5),"r"); c=p.add_hyperparameter(["a","b","c"],"cat"); p.add_hyperparameter([1,2,4,8],"ord")
if cfg.get("cond"):
    d=p.add_hyperparameter((0,5),"child"); p.add_condition(cs.EqualsCondition(d,c,"a"))
ev=Evaluator.create(run,method="serial")
kind=cfg["search"]
if kind=="CBO":
    s=CBO(p,ev,random_state=cfg["seed"],log_dir=tempfile.mkdtemp(),surrogate_model=cfg["sm"],acq_func=cfg["acq"],multi_point_strategy=cfg["mps"],initial_point_generator=cfg.get("design","random"),n_initial_points=4,n_points=100,moo_scalarization_strategy=cfg.get("moo","Chebyshev"))
    s._setup_optimizer()
elif kind=="RS": s=RandomSearch(p,ev,random_state=cfg["seed"],log_dir=tempfile.mkdtemp())
else: s=RegularizedEvolution(p,ev,random_state=cfg["seed"],log_dir=tempfile.mkdtemp(),population_size=6,sample_size=3)
out=[]
def obj(x):
    v=float(np.log(x["i_log"])-x["r"]**2+(x["cat"]=="b")+x["ord"]/8)
    return (v,-v*0.5+x["r"]) if cfg.get("nobj",1)==2 else v
for it in range(6):
    X=s.ask(cfg.get("batch",2))
    out+= [[ (k, v.hex() if isinstance(v,float) else v) for k,v in x.items()] for x in X]
    s.tell([J(x,obj(x)) for x in X])
print(json.dumps(out))
