import Mathlib.Data.Finset.Sort
import Mathlib.Data.Rat.Defs
import Mathlib.Algebra.Order.Ring.Rat
import Mathlib.Tactic.Ring

namespace HV
/-- integral of a step function sampled at sorted cut points, up to `r` -/
def slabs (A : ℚ → ℚ) (r : ℚ) : List ℚ → ℚ
  | [] => 0
  | [c] => (r - c) * A c
  | c :: c' :: rest => (c' - c) * A c + slabs A r (c' :: rest)

def hd (p : List ℚ) : ℚ := p.headD 0

def hv : List ℚ → List (List ℚ) → ℚ
  | [], pts => if pts = [] then 0 else 1
  | r :: rs, pts =>
      let cuts := ((pts.map hd).toFinset).sort (· ≤ ·)
      slabs (fun t => hv rs ((pts.filter (fun p => decide (hd p ≤ t))).map List.tail)) r cuts

#eval hv [4,4] [[1,3],[3,1]]        -- 3*1 + ... expect: union of [1,4]x[3,4] (3) and [3,4]x[1,4] (3) minus overlap 1 = 5
#eval hv [4,4] [[1,3],[3,1],[1,3]]  -- 5
#eval hv [4] [[1],[2]]              -- 3
#eval hv [4,4,4] [[0,0,0]]          -- 64
#eval hv [4,4,4] [[0,3,3],[3,0,3],[3,3,0],[4,0,0]]  -- 4+4+4 - ... 

theorem slabs_congr {A B : ℚ → ℚ} (r : ℚ) (l : List ℚ) (h : ∀ t, A t = B t) : slabs A r l = slabs B r l := by
  have : A = B := funext h
  rw [this]

theorem hv_set_ext : ∀ (ref : List ℚ) (P Q : List (List ℚ)), (∀ p, p ∈ P ↔ p ∈ Q) → hv ref P = hv ref Q := by
  intro ref
  induction ref with
  | nil =>
    intro P Q h
    simp only [hv]
    have : P = [] ↔ Q = [] := by
      constructor
      · intro hp; subst hp; exact List.eq_nil_iff_forall_not_mem.mpr (fun p hq => by simpa using (h p).mpr hq)
      · intro hq; subst hq; exact List.eq_nil_iff_forall_not_mem.mpr (fun p hp => by simpa using (h p).mp hp)
    by_cases hp : P = []
    · simp [hp, this.mp hp]
    · have hq : ¬ Q = [] := fun hq => hp (this.mpr hq)
      simp [hp, hq]
  | cons r rs ih =>
    intro P Q h
    simp only [hv]
    have hcuts : (P.map hd).toFinset = (Q.map hd).toFinset := by
      ext x; simp only [List.mem_toFinset, List.mem_map]
      constructor
      · rintro ⟨p, hp, rfl⟩; exact ⟨p, (h p).mp hp, rfl⟩
      · rintro ⟨p, hp, rfl⟩; exact ⟨p, (h p).mpr hp, rfl⟩
    rw [hcuts]
    apply slabs_congr
    intro t
    apply ih
    intro p
    simp only [List.mem_map, List.mem_filter]
    constructor
    · rintro ⟨q, ⟨hq, hc⟩, rfl⟩; exact ⟨q, ⟨(h q).mp hq, hc⟩, rfl⟩
    · rintro ⟨q, ⟨hq, hc⟩, rfl⟩; exact ⟨q, ⟨(h q).mpr hq, hc⟩, rfl⟩
end HV
#print axioms HV.hv_set_ext
