/-! spike: NDS sweep over an abstract weak-dominance preorder -/
namespace Spike
variable {P : Type} (wd : P → P → Bool)

def sweep (pre : List P) : List P → List P
  | [] => pre
  | p :: rest => sweep (pre.filter (fun q => !wd p q) ++ [p]) (rest.filter (fun q => !wd p q))
termination_by l => l.length
decreasing_by
  simp only [List.length_cons, List.unattach_filter, List.unattach_attach]
  exact Nat.lt_succ_of_le (List.length_filter_le _ _)

structure Pre : Prop where
  refl : ∀ a, wd a a = true
  trans : ∀ a b c, wd a b = true → wd b c = true → wd a c = true

def Anti (l : List P) : Prop := l.Pairwise (fun a b => wd a b = false ∧ wd b a = false)

theorem sweep_spec (h : Pre wd) (orig : List P) :
    ∀ (post pre : List P),
      Anti wd pre →
      (∀ a ∈ pre, ∀ q ∈ post, wd a q = false) →
      (∀ x ∈ orig, ∃ y ∈ pre ++ post, wd y x = true) →
      (∀ y ∈ pre ++ post, y ∈ orig) →
      Anti wd (sweep wd pre post) ∧ (∀ x ∈ orig, ∃ r ∈ sweep wd pre post, wd r x = true)
        ∧ (∀ r ∈ sweep wd pre post, r ∈ orig) := by
  intro post
  induction post using (measure List.length).wf.induction with
  | _ post ih =>
    intro pre hA hB hC hD
    cases post with
    | nil =>
      simp only [sweep]
      refine ⟨hA, ?_, ?_⟩
      · intro x hx; simpa using hC x hx
      · intro r hr; exact hD r (by simp [hr])
    | cons p rest =>
      rw [sweep]
      apply ih
      · show (rest.filter _).length < (p :: rest).length
        simp only [List.length_cons]; exact Nat.lt_succ_of_le (List.length_filter_le _ _)
      · -- antichain
        unfold Anti
        rw [List.pairwise_append]
        refine ⟨?_, by simp, ?_⟩
        · exact List.Pairwise.sublist List.filter_sublist hA
        · intro a ha b hb
          simp only [List.mem_singleton] at hb; subst hb
          simp only [List.mem_filter, Bool.not_eq_true', ] at ha
          exact ⟨hB a ha.1 b (by simp), ha.2⟩
      · intro a ha q hq
        simp only [List.mem_append, List.mem_filter, List.mem_singleton, Bool.not_eq_true'] at ha hq
        rcases ha with ha | rfl
        · exact hB a ha.1 q (by simp [hq.1])
        · exact hq.2
      · intro x hx
        obtain ⟨y, hy, hyx⟩ := hC x hx
        by_cases hpy : wd p y = true
        · exact ⟨p, by simp, h.trans _ _ _ hpy hyx⟩
        · refine ⟨y, ?_, hyx⟩
          simp only [List.mem_append, List.mem_cons, List.mem_filter, List.mem_singleton, Bool.not_eq_true'] at hy ⊢
          have hf : wd p y = false := by simpa using hpy
          rcases hy with hy | rfl | hy
          · exact Or.inl (Or.inl ⟨hy, hf⟩)
          · exact Or.inl (Or.inr (by simp))
          · exact Or.inr ⟨hy, hf⟩
      · intro y hy
        simp only [List.mem_append, List.mem_filter, List.mem_singleton] at hy
        rcases hy with (hy | rfl) | hy
        · exact hD y (by simp [hy.1])
        · exact hD _ (by simp)
        · exact hD y (by simp [hy.1])
end Spike
#print axioms Spike.sweep_spec
