import warnings, collections
warnings.filterwarnings("ignore")
import numpy as np
from deephyper.hpo import HpProblem, CBO
from deephyper.evaluator import Evaluator
import tempfile
async def run(job): return 0.0
def mk(strategy, surrogate="ET", space="fin", **kw):
    p = HpProblem()
    if space=="fin":
        p.add_hyperparameter((0,3),"a"); p.add_hyperparameter(["x","y","z"],"b")
    elif space=="mix":
        p.add_hyperparameter((1,100,"log-uniform"),"a"); p.add_hyperparameter(["x","y","z"],"b"); p.add_hyperparameter((1e-3,1.0,"log-uniform"),"c"); p.add_hyperparameter([1,2,4,8],"d")
    ev = Evaluator.create(run, method="serial")
    s = CBO(p, ev, random_state=3, log_dir=tempfile.mkdtemp(), surrogate_model=surrogate, multi_point_strategy=strategy, n_initial_points=3, n_points=200, **kw)
    s._setup_optimizer()
    return s
class J:
    def __init__(s,c,o): s.c=c;s.o=o
    def __iter__(s): return iter((s.c,s.o))
for strat in ["cl_max","cl_min","cl_mean","qUCB","qUCBd","topk","boltzmann"]:
  for space in ["fin","mix"]:
    try:
        s = mk(strat, space=space)
        seen=[]; rng=np.random.RandomState(0)
        for it in range(6):
            X = s.ask(2)
            seen += [tuple(x.items()) for x in X]
            s.tell([J(x, float(rng.rand())) for x in X])
        c = collections.Counter(seen)
        dup = {k:v for k,v in c.items() if v>1}
        print(strat, space, "n=",len(seen),"distinct=",len(c), "dups", len(dup), seen[-2:])
    except Exception as e:
        print(strat, space, "EXC", type(e).__name__, str(e)[:150])
