import asyncio, tempfile, warnings, logging
warnings.filterwarnings("ignore")
from deephyper.hpo import HpProblem, RandomSearch
from deephyper.evaluator import Evaluator
count = 0
async def run(job):
    global count
    count += 1
    return job.parameters["x"]
def mk(nw=1):
    p = HpProblem(); p.add_hyperparameter((0.0,1.0),"x")
    ev = Evaluator.create(run, method="serial", method_kwargs={"num_workers":nw})
    return RandomSearch(p, ev, random_state=1, log_dir=tempfile.mkdtemp())
def seq(calls, nw=1):
    global count
    s = mk(nw); prev=0; out=[]
    for kw in calls:
        c0=count
        df = s.search(**kw)
        n = 0 if df is None else len(df)
        out.append((kw, n-prev, count-c0)); prev=n
    return out
print(seq([dict(max_evals=3, max_evals_strict=True)]*4))
print(seq([dict(max_evals=3, max_evals_strict=True), dict(max_evals=3)]))
print(seq([dict(max_evals=3, timeout=1), dict(max_evals=5)],nw=1))
print(seq([dict(max_evals=2), dict(max_evals=5), dict(max_evals=1)],nw=3))
print(seq([dict(max_evals=2), dict(max_evals=5,max_evals_strict=True), dict(max_evals=1,max_evals_strict=True)],nw=4))
