import multiprocessing as mp, sys, time, collections
from deephyper.evaluator.storage import SharedMemoryStorage
def client(st, sid, n, q):
    ids=[]
    for i in range(n):
        j = st.create_new_job(sid)
        st.store_job_out(j, (mp.current_process().name, i))
        ids.append(j)
    q.put(ids)
if __name__=="__main__":
    st = SharedMemoryStorage()
    sid = st.create_new_search()
    q = mp.Queue()
    N=int(sys.argv[1]); P=int(sys.argv[2])
    ps=[mp.Process(target=client,args=(st,sid,N,q)) for _ in range(P)]
    t=time.time()
    [p.start() for p in ps]
    allids=[]
    for _ in ps: allids += q.get()
    [p.join() for p in ps]
    c=collections.Counter(allids)
    print("total",len(allids),"distinct",len(c),"dups",sum(1 for v in c.values() if v>1), "stored", len(st.load_all_job_ids(sid)), time.time()-t)
