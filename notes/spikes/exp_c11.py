import warnings, itertools
warnings.filterwarnings("ignore")
import numpy as np
from deephyper.skopt.moo import non_dominated_set, non_dominated_set_ranked, hypervolume, pareto_front
def dom(a,b): return all(x<=y for x,y in zip(a,b)) and any(x<y for x,y in zip(a,b))
bad=0; n=0
for m in [1,2,3]:
    lat = list(itertools.product(range(3 if m==3 else 4), repeat=m))
    for k in range(1,5):
        for pts in itertools.combinations_with_replacement(lat,k):
            for perm in set(itertools.permutations(pts)):
                y=np.array(perm,dtype=float)
                mask=non_dominated_set(y)
                idx=non_dominated_set(y,return_mask=False)
                n+=1
                ok = sorted(idx.tolist())==np.nonzero(mask)[0].tolist()
                sel=[tuple(p) for p,mk in zip(perm,mask) if mk]
                # no selected dominated; every unselected dominated by or equal to a selected; no dup among selected
                ok &= all(not dom(q,p) for p in sel for q in perm)
                ok &= all(any(dom(s,p) or s==p for s in sel) for p,mk in zip(perm,mask) if not mk)
                ok &= len(set(sel))==len(sel)
                if not ok:
                    bad+=1
                    if bad<5: print("BAD",perm,mask,idx)
print("nds cases",n,"bad",bad)
# hypervolume brute force on lattice
def hv_brute(pts, ref):
    m=len(ref); 
    cells=itertools.product(*[range(int(r)) for r in ref])
    return sum(1 for c in cells if any(all(p[i]<=c[i] for i in range(m)) for p in pts))
bad=0;n=0
for m in [1,2,3,4]:
    R=4 if m<4 else 3
    lat=list(itertools.product(range(R+1),repeat=m))
    import random; random.seed(m)
    combos = list(itertools.combinations_with_replacement(lat, 3)) if m<3 else random.sample(list(itertools.combinations_with_replacement(lat,3)),3000)
    for pts in combos:
        y=np.array(pts,dtype=float); y0=y.copy()
        ref=np.array([float(R)]*m)
        try: h=hypervolume(y,ref)
        except Exception as e: h=("EXC",type(e).__name__,str(e)[:50])
        e=hv_brute(pts,ref); n+=1
        if h!=e or not np.array_equal(y,y0):
            bad+=1
            if bad<8: print("HV BAD",m,pts,h,e, np.array_equal(y,y0))
print("hv cases",n,"bad",bad)
