import warnings
warnings.filterwarnings("ignore")
import numpy as np
from deephyper.skopt.space import Space, Real, Integer, Categorical
def rt(space, X):
    try:
        Xt = space.transform(X); Xr = space.inverse_transform(Xt)
        return Xt.shape, Xr
    except Exception as e: return "EXC", type(e).__name__, str(e)[:100]
s = Space([Categorical([1,2,4,8],transform="identity"), Integer(1,10)])
print(rt(s, [[1,3],[4,5],[8,10]]))
s = Space([Integer(1,10), Categorical([1,2,4,8],transform="identity")])
print(rt(s, [[3,1],[5,4],[10,8]]))
s = Space([Categorical([1.5,2.5],transform="identity"), Categorical([True,False],transform="label"),Categorical(["a","b"],transform="onehot"),Categorical(["a","b","c"],transform="onehot")])
print(rt(s, [[1.5,True,"a","c"],[2.5,False,"b","a"]]))
# integer log-uniform big
for hi in [10**6, 10**12, 10**15, 2**53]:
    d = Integer(1, hi, prior="log-uniform")
    xs = [1,2,3,hi-1,hi, hi//3, 10**int(np.log10(hi))-1, 999, 1000, 1001]
    back = d.inverse_transform(d.transform(xs))
    print(hi, [ (a,int(b)) for a,b in zip(xs,back) if a!=b])
    d = Integer(1, hi, prior="log-uniform", transform="normalize")
    back = d.inverse_transform(d.transform(xs))
    print(" norm", hi, [ (a,int(b)) for a,b in zip(xs,back) if a!=b])
# real log-uniform bounds
for lo,hi in [(1e-3,1.0),(1e-10,1e10),(0.001, 1000),(1e-300,1e300),(3e-5, 7e3)]:
    for tr in ["identity","normalize"]:
        d = Real(lo,hi,prior="log-uniform",transform=tr)
        xs=[lo,hi,np.nextafter(lo,1),np.nextafter(hi,0),(lo*hi)**0.5]
        try:
            t = d.transform(xs); b = d.inverse_transform(t)
            tb = d.transformed_bounds
            print(lo,hi,tr,"in_tb",[tb[0]<=v<=tb[1] for v in t],"in_space",[lo<=v<=hi for v in b], max(abs(a-c)/a for a,c in zip(xs,b)))
        except Exception as e: print(lo,hi,tr,"EXC",type(e).__name__,str(e)[:80])
