import warnings, signal
warnings.filterwarnings("ignore")
import numpy as np
from deephyper.ensemble.aggregator import MeanAggregator
from deephyper.ensemble.selector import GreedySelector
from deephyper.ensemble.loss import SquaredError
class TO(Exception): pass
def h(*a): raise TO()
signal.signal(signal.SIGALRM,h)
rng=np.random.RandomState(0)
stats={}
for t in range(60):
    n=rng.randint(2,9); yt=rng.randn(6,1); preds=[yt+rng.randn(6,1)*rng.rand()*2 for _ in range(n)]
    for name,kw in [("noES_k1",dict(early_stopping=False,k_init=1)),("noES_norep",dict(early_stopping=False,k_init=1,with_replacement=False)),("ES",dict(early_stopping=True,k_init=1))]:
        sel=GreedySelector(SquaredError(),MeanAggregator(),k=3,random_state=0,**kw)
        signal.alarm(2)
        try:
            idx,w=sel.select(yt,preds); signal.alarm(0)
            k0=1
            losses=[float(np.mean(SquaredError()(yt,p))) for p in preds]
            init=np.argsort(losses)[:k0]
            L0=float(np.mean(SquaredError()(yt,MeanAggregator().aggregate([preds[i] for i in init]))))
            L1=float(np.mean(SquaredError()(yt,MeanAggregator().aggregate([preds[i] for i in idx],w))))
            r="worse" if L1>L0+1e-12 else "ok"
        except TO: r="TIMEOUT"
        except Exception as e: signal.alarm(0); r="EXC "+type(e).__name__
        stats[(name,r)]=stats.get((name,r),0)+1
print(stats)
