import warnings
warnings.filterwarnings("ignore")
import numpy as np
from deephyper.ensemble.aggregator import MeanAggregator, MixedNormalAggregator, MixedCategoricalAggregator, ModeAggregator
from deephyper.ensemble.selector import GreedySelector, TopKSelector
from deephyper.ensemble.loss import SquaredError
rng=np.random.RandomState(0)
loc=[rng.randn(3,1) for _ in range(3)]; sc=[np.abs(rng.randn(3,1)) for _ in range(3)]
y=[{"loc":l,"scale":s} for l,s in zip(loc,sc)]
w=[0.7,0.2,0.1]
a=MixedNormalAggregator().aggregate(y,w); b=MixedNormalAggregator(decomposed_scale=True).aggregate(y,w)
print("mixnormal total var", (a["scale"]**2).ravel(), "al+ep", (b["scale_aleatoric"]**2+b["scale_epistemic"]**2).ravel())
p=[rng.dirichlet([1,1,1],size=4) for _ in range(3)]
print("mode None", ModeAggregator(with_uncertainty=True).aggregate(p))
print("mode [1,1,1]", ModeAggregator(with_uncertainty=True).aggregate(p,[1,1,1]))
pm=[np.ma.masked_array(pi, mask=rng.rand(*pi.shape)<0.0) for pi in p]
try: print("mode masked", ModeAggregator(with_uncertainty=True).aggregate(pm,[1/3]*3))
except Exception as e: print("mode masked EXC",type(e).__name__,e)
# greedy with one candidate
yt=rng.randn(5,1)
for n in [1,2,3]:
  for kw in [dict(),dict(with_replacement=False),dict(k_init=1),dict(k_init=1,with_replacement=False, early_stopping=False),dict(bagging=True)]:
    try:
        r=GreedySelector(SquaredError(),MeanAggregator(),k=5,random_state=0,**kw).select(yt,[rng.randn(5,1) for _ in range(n)])
        print("greedy",n,kw,r)
    except Exception as e: print("greedy",n,kw,"EXC",type(e).__name__,str(e)[:80])
print(TopKSelector(SquaredError(),k=5).select(yt,[rng.randn(5,1) for _ in range(2)]))
