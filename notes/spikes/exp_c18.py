import warnings
warnings.filterwarnings("ignore")
import numpy as np
from fractions import Fraction as F
from deephyper.skopt.learning import RandomForestRegressor
rng=np.random.RandomState(0); worst=0
for t in range(40):
    n=rng.randint(2,60); d=rng.randint(1,5); X=rng.rand(n,d); 
    if t%4==0: X[1]=X[0]
    y=rng.randn(n)*10**rng.randint(-8,8)
    if t%5==0: y[:]=3.0
    kw=dict(n_estimators=rng.randint(1,20),splitter=["best","random"][t%2],bootstrap=bool(t%3),min_samples_split=int(rng.choice([2,5,10])),min_variance=float(rng.choice([0.0,1e-3])),random_state=t)
    for nj in [1,4]:
        m=RandomForestRegressor(n_jobs=nj,**kw).fit(X,y); Q=rng.rand(7,d)
        mu0=m.predict(Q); mu,sd=m.predict(Q,return_std=True); mu2,al,ep=m.predict(Q,return_std=True,disentangled_std=True)
        tm=np.array([t_.predict(Q) for t_ in m.estimators_]); tv=np.array([np.maximum(t_.tree_.impurity[t_.apply(Q)],m.min_variance) for t_ in m.estimators_])
        for j in range(len(Q)):
            ms=[F(float(v)) for v in tm[:,j]]; vs=[F(float(v)) for v in tv[:,j]]; k=len(ms)
            mean=sum(ms)/k; alv=sum(vs)/k; epv=sum(x*x for x in ms)/k-mean*mean
            scale=float(alv+sum(x*x for x in ms)/k)+1e-300
            err=max(abs(float(F(float(sd[j]))**2-(alv+epv)))/scale, abs(float(F(float(al[j]))**2-alv))/scale, abs(float(F(float(ep[j]))**2-epv))/scale, abs(float(F(float(mu[j]))-mean))/(abs(float(mean))+1e-300), abs(mu0[j]-mu[j])/(abs(mu[j])+1e-300))
            worst=max(worst,err)
            assert np.isfinite([sd[j],al[j],ep[j]]).all() and sd[j]>=0 and al[j]>=0 and ep[j]>=0
print("worst rel err",worst)
