"""C12 spike (throw-away, not part of the check): a Python port of the Lean model of hvRecursive
(`Model/Hypervolume.lean`) with hooks, used to VALIDATE candidate level invariants for points on the
reference boundary before proving them (`Proofs/HypervolumeNd5*.lean`).

    timeout 900 /venv/bin/python exp_c12_boundary.py live  SEED N cls   # relativised invariant, admitted class
    timeout 900 /venv/bin/python exp_c12_boundary.py live  SEED N all   # ... on all inputs: fails only by "poison"
    timeout 900 /venv/bin/python exp_c12_boundary.py chain SEED N       # candidate for the open case (m >= 6)

`live`: every area/volume write, every cache entry below bounds[k] at every call entry/exit and every returned
value is exact whenever the linked prefix is *live* (no node with a zero coordinate strictly between the level and
the last objective); every set flag is justified by a dominating node in front, a zero coordinate of the node, or
a linked node in front of it in the flag's list with a zero coordinate at or above the flag level.  Holds on the class
"zero coordinates only in objectives 0,1,2,3,m-1" (proved: SpecL); on all inputs it fails only through cache entries
written when such a flag of level e is read at a level d < e ("poison").
`chain`: with the sets linked at the levels above as context, every poisoned entry has in its prefix a node that is
shadowed (a node z linked below level e, in front of it in list e, zero coordinate >= e) or doomed (bounds[j] < x[j]
for a j above).  0 unexplained entries in 48 000 boundary-heavy runs (m = 6, 7); NOT proved.
"""
"""Python port of the Lean model (Model/Hypervolume.lean) with instrumentation hooks."""
import itertools, random, sys
from fractions import Fraction
from functools import lru_cache

NEG = -10**9

def hv_exact(pts, m):
    """hypervolume wrt 0 of points (tuples, coords <= 0) on first m coords; slicing on last coord."""
    pts = [tuple(p[:m]) for p in pts]
    return _hv(frozenset(pts), m)

@lru_cache(maxsize=None)
def _hv(pts, m):
    if not pts:
        return 0
    if m == 0:
        return 1
    if m == 1:
        return -min(p[0] for p in pts)
    zs = sorted(set(p[m - 1] for p in pts))
    tot = 0
    for j, z in enumerate(zs):
        nz = zs[j + 1] if j + 1 < len(zs) else 0
        if nz == z:
            continue
        sub = frozenset(p[:m - 1] for p in pts if p[m - 1] <= z)
        tot += (nz - z) * _hv(sub, m - 1)
    return tot

def stable_sort(ids, key):
    return sorted(ids, key=key)

class Node:
    def __init__(self, cargo, m):
        self.cargo = cargo
        self.ignore = 0
        self.area = [0] * m
        self.volume = [0] * m

class Sim:
    def __init__(self, rel, m, hooks=None):
        self.rel = rel
        self.m = m
        n = len(rel)
        cur = list(range(n))
        orders = [None] * m
        for i in reversed(range(m)):
            cur = stable_sort(cur, lambda a: rel[a][i])
            orders[i] = list(cur)
        self.orders = orders
        self.nodes = [Node(p, m) for p in rel]
        self.bounds = [NEG] * m
        self.hooks = hooks
        self.depth = 0

    def linked(self, i, active):
        s = set(active)
        return [k for k in self.orders[i] if k in s]

    def run(self):
        return self.rec(self.m - 1, list(range(len(self.rel))))

    def rec(self, d, active):
        if not active:
            return 0
        if d == 0:
            l = self.linked(0, active)
            return -self.rel[l[0]][0]
        if d == 1:
            l = self.linked(1, active)
            q = l[0]
            h = self.rel[q][0]
            hvol = 0
            for p in l[1:]:
                hvol += h * (self.rel[q][1] - self.rel[p][1])
                if self.rel[p][0] < h:
                    h = self.rel[p][0]
                q = p
            hvol += h * self.rel[q][1]
            return hvol
        return self.levelN(d, self.linked(d, active))

    def upd_bounds(self, d, cargo):
        for i in range(d):
            if cargo[i] < self.bounds[i]:
                self.bounds[i] = cargo[i]

    def settle(self, d, q, prev, active, hvol):
        nq = self.nodes[q]
        nq.volume[d] = hvol
        parea = self.nodes[prev].area[d] if prev is not None else 0
        if nq.ignore >= d:
            nq.area[d] = parea
            if self.hooks: self.hooks.on_area(self, d, q, list(active), 'copy', prev)
        else:
            r = self.rec(d - 1, list(active))
            nq.area[d] = r
            if self.hooks: self.hooks.on_area(self, d, q, list(active), 'rec', prev)
            parea = self.nodes[prev].area[d] if prev is not None else 0
            if r <= parea:
                nq.ignore = d
                if self.hooks: self.hooks.on_flag(self, d, q, list(active), prev)

    def levelN(self, d, l):
        if self.hooks: self.hooks.on_enter(self, d, list(l))
        for i in l:
            if self.nodes[i].ignore < d:
                self.nodes[i].ignore = 0
        rev = l[::-1]
        removed = []
        while len(rev) > 1:
            q, q2 = rev[0], rev[1]
            bd = self.bounds[d]
            if bd < self.rel[q][d] or bd <= self.rel[q2][d]:
                removed.insert(0, q)
                self.upd_bounds(d, self.rel[q])
                rev = rev[1:]
            else:
                break
        q = rev[0]
        prev = rev[1] if len(rev) > 1 else None
        active = rev[::-1]
        if self.hooks: self.hooks.on_kept(self, d, list(active), list(removed))
        nq = self.nodes[q]
        if prev is not None:
            np_ = self.nodes[prev]
            if self.hooks: self.hooks.on_read(self, d, prev, list(active[:-1]))
            hvol = np_.volume[d] + np_.area[d] * (self.rel[q][d] - self.rel[prev][d])
        else:
            hvol = 0
            nq.area[0] = 1
            for i in range(d):
                nq.area[i + 1] = nq.area[i] * -self.rel[q][i]
            if self.hooks: self.hooks.on_init(self, d, q)
        self.settle(d, q, prev, active, hvol)
        for p in removed:
            hvol += self.nodes[q].area[d] * (self.rel[p][d] - self.rel[q][d])
            self.bounds[d] = self.rel[p][d]
            self.upd_bounds(d, self.rel[p])
            active = active + [p]
            self.settle(d, p, q, active, hvol)
            q = p
        hvol -= self.nodes[q].area[d] * self.rel[q][d]
        if self.hooks: self.hooks.on_exit(self, d, list(l), hvol)
        return hvol

def nondominated(pts):
    pts = list(dict.fromkeys(pts))
    out = []
    for p in pts:
        if not any(q != p and all(a <= b for a, b in zip(q, p)) for q in pts):
            out.append(p)
    return out

def gen(rng, m, n, lo, pzero):
    pts = []
    for _ in range(n):
        p = tuple(0 if rng.random() < pzero else rng.randint(lo, -1) for _ in range(m))
        pts.append(p)
    return pts

"""Sim with chain context: chain[e] = set linked in lists <= e (S_e) for the active calls."""
class Sim2(Sim):
    def __init__(self, rel, m, hooks=None):
        super().__init__(rel, m, hooks)
        self.chain = {m-1: list(range(len(rel)))}
    def levelN(self, d, l):
        self.chain[d] = list(l)
        return super().levelN(d, l)
    def settle(self, d, q, prev, active, hvol):
        self.chain[d-1] = list(active)
        return super().settle(d, q, prev, active, hvol)
    def Sset(self, e, d, S):
        # set linked in lists <= e, seen from a call at level d on S (at entry/exit: lists <= d hold S)
        return S if e <= d else self.chain[e]

import collections

def V(s, k, K):
    return hv_exact([s.rel[x] for x in K], k+1)

def volSum(s, d, S):
    return sum(V(s, d-1, S[:j+1]) * (s.rel[S[j+1]][d] - s.rel[S[j]][d]) for j in range(len(S)-1))

class H:
    def __init__(self): self.c = collections.Counter(); self.ex = {}
    def note(self, key, ok, info):
        self.c[(key, ok)] += 1
        if not ok and key not in self.ex: self.ex[key] = info
    def on_enter(self, s, d, l): pass
    def on_kept(self, s, d, active, removed): pass
    def on_read(self, s, d, prev, prefix): pass
    def on_init(self, s, d, q): pass
    def on_flag(self, s, d, q, active, prev): pass
    def on_area(self, s, d, q, active, how, prev):
        if live(s, d-1, active):
            ok = s.nodes[q].area[d] == V(s, d-1, active)
            self.note('area-'+how, ok, (list(s.rel), d, q, active))
        else:
            self.c['area-dead'] += 1
            self.c['area-dead-exact', s.nodes[q].area[d] == V(s, d-1, active)] += 1
        if live(s, d, active):
            ok = s.nodes[q].volume[d] == volSum(s, d, active)
            self.note('vol', ok, (list(s.rel), d, q, active))
    def on_exit(self, s, d, l, hvol):
        if live(s, d, l):
            self.note('exit', hvol == V(s, d, l), (list(s.rel), d, l))
        else:
            self.c['exit-dead'] += 1


# ---- relativised invariant (mode live)
def live(s, j, K):  # no zero at coordinates in (j, m-1)
    return not any(s.rel[x][i] == 0 for x in K for i in range(j+1, s.m-1))
def before(s, e, a, b):
    o = s.orders[e]; return o.index(a) < o.index(b)
def dom(s, e, r, x): return all(s.rel[r][c] <= s.rel[x][c] for c in range(e))
def just(s, S, x):
    e = s.nodes[x].ignore
    if e == 0: return 'zero'
    if e >= s.m: return None
    for r in S:
        if r != x and before(s, e, r, x) and dom(s, e, r, x): return 'dom'
    if any(s.rel[x][c] == 0 for c in range(s.m-1)): return 'selfzero'
    for z in S:
        if z != x and before(s, e, z, x) and any(s.rel[z][i] == 0 for i in range(e, s.m-1)): return 'garb'
    return None
class H7(H):
    def on_area(self, s, d, q, active, how, prev):
        if live(s, d-1, active):
            self.note('area-'+how, s.nodes[q].area[d] == V(s, d-1, active), (list(s.rel), d, q, active))
        if live(s, d, active):
            self.note('vol', s.nodes[q].volume[d] == volSum(s, d, active), (list(s.rel), d, q, active))
    def on_exit(self, s, d, l, hvol):
        if live(s, d, l): self.note('exit', hvol == V(s, d, l), (list(s.rel), d, l))
        self.chk(s, d, l, 'exit')
        for x in l:
            j = just(s, l, x); self.note('allfi-exit-'+str(j), j is not None, (list(s.rel), d, l, x, s.nodes[x].ignore))
    def on_enter(self, s, d, l):
        self.chk(s, d, l, 'enter')
        for x in l:
            if s.nodes[x].ignore >= d:
                j = just(s, l, x); self.note('fige-enter-'+str(j), j is not None, (list(s.rel), d, l, x, s.nodes[x].ignore))
    def chk(self, s, d, l, where):
        for k in range(2, d+1):
            lk = s.linked(k, l)
            for j, x in enumerate(lk):
                if s.rel[x][k] < s.bounds[k]:
                    pre = lk[:j+1]
                    if live(s, k-1, pre):
                        ok = s.nodes[x].area[k] == V(s, k-1, pre) and s.nodes[x].volume[k] == volSum(s, k, pre)
                        self.note('cache-'+where, ok, (list(s.rel), d, k, x, l, list(s.bounds)))
def gen3(rng, m, n, lo, cls):
    pts = []
    for _ in range(n):
        p = [rng.randint(lo, -1) for _ in range(m)]
        for c in cls:
            if rng.random() < 0.25: p[c] = 0
        pts.append(tuple(p))
    return pts

# ---- chain-context candidate (mode chain)
def gen2(rng, m, n, lo):
    pts = []
    zc = rng.sample(range(3, m-1), rng.randint(1, min(2, m-4)))
    for _ in range(n):
        p = [rng.randint(lo, -1) for _ in range(m)]
        if rng.random() < 0.4:
            p[rng.choice(zc)] = 0
        pts.append(tuple(p))
    return pts
def susp(s, x, j, d, S):
    for e in range(j+2, s.m-1):
        for z in s.Sset(e-1, d, S):
            if z != x and before(s, e, z, x) and any(s.rel[z][i] == 0 for i in range(e, s.m-1)): return ('susp', e, z)
    return None
def doomed(s, x, j):
    for jj in range(j+2, s.m):
        if s.bounds[jj] < s.rel[x][jj]: return ('doom', jj)
    return None
class H8(H):
    def on_area(self, s, d, q, active, how, prev): pass
    def on_exit(self, s, d, l, hvol): self.chk(s, d, l, 'exit')
    def on_enter(self, s, d, l): self.chk(s, d, l, 'enter')
    def chk(self, s, d, l, where):
        for k in range(2, d+1):
            lk = s.linked(k, l)
            for j, x in enumerate(lk):
                if s.rel[x][k] < s.bounds[k]:
                    pre = lk[:j+1]
                    if live(s, k-1, pre):
                        ok = s.nodes[x].area[k] == V(s, k-1, pre) and s.nodes[x].volume[k] == volSum(s, k, pre)
                        if ok: self.c['ok'] += 1
                        else:
                            why = None
                            for xx in pre:
                                why = susp(s, xx, k-1, d, l) or doomed(s, xx, k-1)
                                if why: break
                            self.note('poison-'+where+'-'+(why[0] if why else 'NONE'), why is not None, (list(s.rel), d, k, x, l, list(s.bounds), dict(s.chain)))

def main():
    import sys
    mode, seed, N = sys.argv[1], int(sys.argv[2]), int(sys.argv[3])
    rng = random.Random(seed)
    h = H7() if mode == 'live' else H8()
    for it in range(N):
        if mode == 'live':
            m = rng.choice([5, 6, 7]); n = rng.randint(3, 9)
            cls = [0, 1, 2, 3, m - 1] if sys.argv[4] == 'cls' else list(range(m))
            cls = rng.sample(cls, rng.randint(1, len(cls)))
            pts = gen3(rng, m, n, rng.choice([-1, -2, -3]), cls)
        else:
            m = rng.choice([6, 6, 7]); n = rng.randint(4, 9)
            pts = gen2(rng, m, n, rng.choice([-2, -3]))
        s = Sim2(pts, m, h)
        assert s.run() == hv_exact(pts, m)
    for k in sorted(h.c, key=str): print(k, h.c[k])
    for k in h.ex: print("EX", k, h.ex[k])
if __name__ == "__main__": main()
