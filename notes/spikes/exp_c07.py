import subprocess, json, os, itertools
cfgs=[dict(search="RS",seed=1),dict(search="RS",seed=1,cond=1),dict(search="REGEVO",seed=1),dict(search="REGEVO",seed=1,cond=1)]
for sm,acq,mps in [("ET","UCBd","cl_max"),("RF","EI","qUCB"),("GP","UCB","cl_min"),("ET","MES","cl_max"),("ET","gp_hedge","cl_mean"),("ET","PId","qUCBd"),("GP","gp_hedge","cl_max")]:
    cfgs.append(dict(search="CBO",seed=1,sm=sm,acq=acq,mps=mps))
cfgs.append(dict(search="CBO",seed=1,sm="ET",acq="UCBd",mps="cl_max",nobj=2))
cfgs.append(dict(search="CBO",seed=1,sm="GP",acq="UCB",mps="cl_max",nobj=2,moo="Linear"))
cfgs.append(dict(search="CBO",seed=1,sm="ET",acq="UCBd",mps="cl_max",cond=1))
for d in ["sobol","halton","hammersly","lhs","grid"]: cfgs.append(dict(search="CBO",seed=1,sm="ET",acq="UCBd",mps="cl_max",design=d))
def run(cfg,hs,pert):
    env=dict(os.environ,PYTHONHASHSEED=str(hs))
    r=subprocess.run(["/venv/bin/python","c07_child.py",json.dumps(cfg),str(pert)],capture_output=True,text=True,env=env,timeout=300)
    return r.stdout.strip().splitlines()[-1] if r.stdout.strip() else "ERR "+r.stderr.strip().splitlines()[-1][:150]
from concurrent.futures import ThreadPoolExecutor
def job(cfg):
    a=run(cfg,1,3); b=run(cfg,2,17); c=run(dict(cfg,seed=2),1,3)
    return cfg,("SAME" if a==b else "DIFF"),("seedsdiffer" if a!=c else "SEEDS-SAME"), a[:80] if a.startswith("ERR") else ""
with ThreadPoolExecutor(12) as ex:
    for r in ex.map(job,cfgs): print(r)
