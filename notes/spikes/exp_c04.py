import asyncio, tempfile, warnings
warnings.filterwarnings("ignore")
import pandas as pd
from deephyper.hpo import HpProblem, RandomSearch, CBO
from deephyper.evaluator import Evaluator
def mk(outs, nw=1, cls=RandomSearch, **kw):
    it = iter(outs)
    log=[]
    async def run(job):
        o = next(it)
        log.append((dict(job.parameters), o))
        return o
    p = HpProblem(); p.add_hyperparameter((0.0,1.0),"x")
    ev = Evaluator.create(run, method="serial", method_kwargs={"num_workers":nw})
    d = tempfile.mkdtemp()
    return cls(p, ev, random_state=1, log_dir=d, **kw), log, d
for outs in [
   ["F_a", (1.0,2.0), (3.0,1.0), "F_b"],
   [(1.0,2.0), "F_a", (3.0,1.0), "F_b"],
   ["F_a", "F_b", "F_c"],
   ["F_a", 1.0, 2.0],
   [{"objective":1.0,"metadata":{"a":1}}, {"objective":2.0,"metadata":{"b":2}}, 3.0],
   ["F_a", {"objective":2.0,"metadata":{"b":2}}, 3.0],
   [float("nan"), 1.0, float("inf")],
   [(1.0, float("nan")), (1.0, 2.0), (2.0,1.0)],
]:
    s, log, d = mk(outs)
    try:
        df = s.search(max_evals=len(outs))
        print(outs); print(df.drop(columns=[c for c in df.columns if c.startswith("m:t")]).to_string()); print(open(d+"/results.csv").read()[:300])
    except Exception as e:
        import traceback; print(outs, "EXC", type(e), e)
