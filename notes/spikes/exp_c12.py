import warnings, itertools, random
warnings.filterwarnings("ignore")
import numpy as np
from deephyper.skopt.moo import non_dominated_set, non_dominated_set_ranked, hypervolume
def hv_brute(pts, ref):
    m=len(ref)
    cells=itertools.product(*[range(int(r)) for r in ref])
    return sum(1 for c in cells if any(all(p[i]<=c[i] for i in range(m)) for p in pts))
random.seed(1); bad=0;n=0
for m in [2,3,4,5]:
    R=5 if m<5 else 4
    for t in range(1500):
        k=random.randint(1,8)
        pts=[tuple(random.randint(0,R) for _ in range(m)) for _ in range(k)]
        y=np.array(pts,dtype=float); ref=np.array([float(R)]*m)
        h=hypervolume(y,ref); e=hv_brute(pts,ref); n+=1
        if h!=e:
            bad+=1
            if bad<8: print("HV BAD",m,pts,h,e)
print("hv",n,bad)
# ranked
def fronts(y):
    rem=list(range(len(y))); fr=[]
    while rem:
        sub=y[rem]; m=non_dominated_set(sub); fr.append([rem[i] for i in range(len(rem)) if m[i]]); rem=[rem[i] for i in range(len(rem)) if not m[i]]
    return fr
bad=0;n=0
for t in range(3000):
    m=random.randint(1,3); k=random.randint(1,9)
    y=np.array([[random.randint(0,3) for _ in range(m)] for _ in range(k)],dtype=float)
    frac=random.choice([0.0,0.1,0.25,0.3,0.5,0.75,0.9,1.0,1.5])
    mask=non_dominated_set_ranked(y,frac); req=min(int(np.ceil(frac*k)),k); n+=1
    fr=fronts(y); rank={i:r for r,f in enumerate(fr) for i in f}
    sel=[i for i in range(k) if mask[i]]
    ok = len(sel)==req
    if sel:
        mr=max(rank[i] for i in sel)
        ok &= all(mask[i] for i in range(k) if rank[i]<mr)
    if not ok:
        bad+=1
        if bad<6: print("RANK BAD",y.tolist(),frac,mask,req)
print("ranked",n,bad)
