import asyncio, tempfile, warnings, logging, time
warnings.filterwarnings("ignore")
from deephyper.hpo import HpProblem, RandomSearch
from deephyper.evaluator import Evaluator
count = 0
async def run(job):
    global count
    count += 1
    await asyncio.sleep(0.3)
    return job.parameters["x"]
def mk(nw=1):
    p = HpProblem(); p.add_hyperparameter((0.0,1.0),"x")
    ev = Evaluator.create(run, method="serial", method_kwargs={"num_workers":nw})
    return RandomSearch(p, ev, random_state=1, log_dir=tempfile.mkdtemp())
def seq(calls, nw=1):
    global count
    s = mk(nw); prev=0; out=[]
    for kw in calls:
        c0=count
        df = s.search(**kw)
        n = 0 if df is None else len(df)
        out.append((kw, n-prev, count-c0, list(df.job_status[prev:]) if df is not None else None)); prev=n
    return out
print(seq([dict(timeout=1), dict(max_evals=5)],nw=1))
print(seq([dict(timeout=1), dict(max_evals=5)],nw=2))
