import warnings, itertools, tempfile, sys
warnings.filterwarnings("ignore")
import numpy as np
from deephyper.hpo import HpProblem, CBO, RandomSearch, RegularizedEvolution, ExperimentalDesignSearch
from deephyper.evaluator import Evaluator
async def run(job): return 0.0
class J:
    def __init__(s,c,o): s.c=c;s.o=o
    def __iter__(s): return iter((s.c,s.o))
def prob():
    p = HpProblem()
    p.add_hyperparameter((1,64,"log-uniform"),"i_log"); p.add_hyperparameter((-3,3),"i"); p.add_hyperparameter((3e-5,7e3,"log-uniform"),"r_log")
    p.add_hyperparameter((-1.5,2.5),"r"); p.add_hyperparameter(["a","b","c"],"cat"); p.add_hyperparameter([1,2,4,8],"ord"); p.add_hyperparameter([0.5,1.5],"ordf"); p.add_hyperparameter([True,False],"b"); p.add_hyperparameter(7,"const")
    return p
def member(p, c):
    errs=[]
    sp=p.space
    for k,hp in sp.items():
        v=c[k]; t=type(hp).__name__
        if t=="UniformIntegerHyperparameter":
            if type(v) is not int or not (hp.lower<=v<=hp.upper): errs.append((k,v,type(v)))
        elif t=="UniformFloatHyperparameter":
            if type(v) is not float or not (hp.lower<=v<=hp.upper): errs.append((k,v,type(v)))
        elif t=="CategoricalHyperparameter":
            if not any(v==ch and type(v)==type(ch) for ch in hp.choices): errs.append((k,v,type(v)))
        elif t=="OrdinalHyperparameter":
            if not any(v==ch and type(v)==type(ch) for ch in hp.sequence): errs.append((k,v,type(v)))
        elif t=="Constant":
            if v!=hp.value: errs.append((k,v,type(v)))
    return errs
rng=np.random.RandomState(0)
for design in ["random","sobol","halton","hammersly","lhs","grid"]:
  for surrogate,strategy,acq in [("ET","cl_max","UCBd"),("RF","qUCB","EI"),("GP","cl_min","UCB"),("DUMMY","cl_max","UCB"),("ET","qUCBd","PId"),("GP","cl_mean","gp_hedge"), ("HGBRT","cl_max","UCB"),("ET","cl_max","MES")]:
    p=prob(); ev=Evaluator.create(run,method="serial")
    try:
        s=CBO(p,ev,random_state=1,log_dir=tempfile.mkdtemp(),surrogate_model=surrogate,multi_point_strategy=strategy,acq_func=acq,initial_point_generator=design,n_initial_points=6,n_points=100)
        s._setup_optimizer()
        errs=[];n=0
        for it in range(5):
            X=s.ask(3); n+=len(X)
            for x in X: errs+=member(p,x)
            s.tell([J(x, float(rng.rand()) if rng.rand()>0.2 else "F_x") for x in X])
        print(design,surrogate,strategy,acq,"n",n,"errs",errs[:3])
    except Exception as e:
        print(design,surrogate,strategy,acq,"EXC",type(e).__name__,str(e)[:100])
