import warnings
warnings.filterwarnings("ignore")
from deephyper.evaluator import RunningJob
from deephyper.evaluator.storage import MemoryStorage
from deephyper.stopper import MedianStopper, SuccessiveHalvingStopper
import copy
def runseq(stopper, curves, max_steps):
    st = MemoryStorage(); sid = st.create_new_search()
    out=[]
    for c in curves:
        jid = st.create_new_job(sid)
        sp = copy.deepcopy(stopper); rj = RunningJob(jid, {}, st, sp); sp.job = rj
        stopped_at=None
        for step in range(1,max_steps+1):
            rj.record(step, c(step))
            if rj.stopped(): stopped_at=step; break
        out.append(stopped_at)
    return out, st.load_search(sid)
# A: weak curve, B: better at all budgets
A=lambda s: 0.1*s; B=lambda s: 0.1*s+0.05
for mc in [0,1,2,3]:
    print("median min_competing",mc, runseq(MedianStopper(max_steps=9,min_competing=mc),[A,B],9)[0])
print("asha", runseq(SuccessiveHalvingStopper(max_steps=9,reduction_factor=3),[A,B,A],9)[0])
