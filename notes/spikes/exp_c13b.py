import itertools, copy, warnings
warnings.filterwarnings("ignore")
from deephyper.evaluator.storage import MemoryStorage
# reference: dict model
class Ref:
    def __init__(s): s.sc=0; s.d={}
    def create_new_search(s):
        sid=str(s.sc); s.sc+=1; s.d[sid]={"ctr":0,"jobs":{}, "vals":{}}; return sid
    def create_new_job(s,sid):
        j=s.d[sid]["ctr"]; s.d[sid]["ctr"]+=1; jid=f"{sid}.{j}"; s.d[sid]["jobs"][str(j)]={"status":0,"in":None,"out":None,"metadata":{},"intermediate":{"budget":[],"objective":[]}}; return jid
ops_kinds=["cs","cj0","cj1","so","sm_a","sm_b","si","ss","lj","ls","lo","lm","lst","ljs","lids","sv","lv"]
def apply(st, op, ctx):
    sids=ctx["sids"]; jids=ctx["jids"]
    def sid(i): return sids[i] if i<len(sids) else None
    try:
        if op=="cs": r=st.create_new_search(); sids.append(r); return ("id",r)
        if op in("cj0","cj1"):
            s_=sid(int(op[-1])); 
            if s_ is None: return ("skip",)
            r=st.create_new_job(s_); jids.append(r); return ("id",r)
        if not jids: return ("skip",)
        j=jids[ctx["k"]%len(jids)]; ctx["k"]+=1
        if op=="so": st.store_job_out(j,{"v":ctx["k"]}); return ("ok",)
        if op=="sm_a": st.store_job_metadata(j,"a",ctx["k"]); return ("ok",)
        if op=="sm_b": st.store_job_metadata(j,"b",[ctx["k"]]); return ("ok",)
        if op=="si": st.store_job_in(j,args=({"x":ctx["k"]},)); return ("ok",)
        if op=="ss": st.store_job_status(j,ctx["k"]%5); return ("ok",)
        if op=="lj": return ("v",st.load_job(j))
        if op=="ls": return ("v",st.load_search(j.split(".")[0]))
        if op=="lo": return ("v",st.load_out_from_all_jobs(j.split(".")[0]))
        if op=="lm": return ("v",st.load_metadata_from_all_jobs(j.split(".")[0],"a"))
        if op=="lst": return ("v",st.load_job_status(j))
        if op=="ljs": return ("v",copy.deepcopy(st.load_jobs(jids[:2])))
        if op=="lids": return ("v",(st.load_all_search_ids(), st.load_all_job_ids(j.split(".")[0])))
        if op=="sv": st.store_search_value(j.split(".")[0],"kk",ctx["k"]); return ("ok",)
        if op=="lv": return ("v",st.load_search_value(j.split(".")[0],"kk"))
    except Exception as e: return ("err",type(e).__name__)
# independent oracle: spec map
def spec_run(ops):
    S={}; order=[]; sc=0; out=[]; sids=[]; jids=[]; k=0
    for op in ops:
        if op=="cs": sid=str(sc); sc+=1; S[sid]={"ctr":0,"jobs":{},"vals":{}}; sids.append(sid); out.append(("id",sid)); continue
        if op in("cj0","cj1"):
            i=int(op[-1])
            if i>=len(sids): out.append(("skip",)); continue
            sid=sids[i]; n=S[sid]["ctr"]; S[sid]["ctr"]+=1; S[sid]["jobs"][str(n)]={"status":0,"in":None,"out":None,"metadata":{},"intermediate":{"budget":[],"objective":[]}}; jid=f"{sid}.{n}"; jids.append(jid); out.append(("id",jid)); continue
        if not jids: out.append(("skip",)); continue
        j=jids[k%len(jids)]; k+=1; sid,pid=j.split("."); J=S[sid]["jobs"][pid]
        if op=="so": J["out"]={"v":k}; out.append(("ok",))
        elif op=="sm_a": J["metadata"]["a"]=k; out.append(("ok",))
        elif op=="sm_b": J["metadata"]["b"]=[k]; out.append(("ok",))
        elif op=="si": J["in"]={"args":({"x":k},),"kwargs":None}; out.append(("ok",))
        elif op=="ss": J["status"]=k%5; out.append(("ok",))
        elif op=="lj": out.append(("v",copy.deepcopy(J)))
        elif op=="ls": out.append(("v",copy.deepcopy(S[sid]["jobs"])))
        elif op=="lo": out.append(("v",[copy.deepcopy(x["out"]) for x in S[sid]["jobs"].values() if x["out"] is not None]))
        elif op=="lm": out.append(("v",[x["metadata"]["a"] for x in S[sid]["jobs"].values() if x["metadata"].get("a") is not None]))
        elif op=="lst": out.append(("v",J["status"]))
        elif op=="ljs": out.append(("v",{jj:copy.deepcopy(S[jj.split(".")[0]]["jobs"][jj.split(".")[1]]) for jj in jids[:2]}))
        elif op=="lids": out.append(("v",(list(S.keys()),[f"{sid}.{p}" for p in S[sid]["jobs"]])))
        elif op=="sv": S[sid]["vals"]["kk"]=k; out.append(("ok",))
        elif op=="lv": out.append(("v",S[sid]["vals"]["kk"]) if "kk" in S[sid]["vals"] else ("err","KeyError"))
    return out
bad=0;n=0
for L in range(1,6):
    for ops in itertools.product(ops_kinds,repeat=L):
        if ops[0]!="cs": continue
        st=MemoryStorage(); ctx={"sids":[],"jids":[],"k":0}
        got=[]; snaps=[]
        for op in ops:
            r=apply(st,op,ctx); got.append(r)
        exp=spec_run(ops); n+=1
        if got!=exp:
            bad+=1
            if bad<5: print("DIFF",ops,got,exp)
print(n,bad)
