import warnings, asyncio, time
warnings.filterwarnings("ignore")
from deephyper.evaluator import SerialEvaluator, ThreadPoolEvaluator, queued
log=[]
async def run(job, dequed=None):
    log.append(("start", job.id, list(dequed)))
    await asyncio.sleep(job.parameters["d"])
    log.append(("end", job.id, list(dequed)))
    return 1
Q = queued(SerialEvaluator)
ev = Q(run, num_workers=2, queue=[0,1,2,3], queue_pop_per_task=1)
ev.submit([{"d":0.05*(i+1)} for i in range(4)])
jobs = ev.gather("ALL")
for l in log: print(l)
print([(j.id, j.metadata["dequed"]) for j in jobs])
# more jobs than queue
log.clear()
ev = Q(run, num_workers=1, queue=[0,1], queue_pop_per_task=1)
try:
    ev.submit([{"d":0.01} for i in range(4)])
    jobs = ev.gather("ALL")
    print("ok", [(j.id, j.metadata["dequed"]) for j in jobs])
except Exception as e: print("EXC", type(e).__name__, e)
