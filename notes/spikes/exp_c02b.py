import warnings, tempfile
warnings.filterwarnings("ignore")
import numpy as np, ConfigSpace as cs
from deephyper.hpo import HpProblem, CBO, RandomSearch, RegularizedEvolution
from deephyper.evaluator import Evaluator
async def run(job): return 0.0
class J:
    def __init__(s,c,o): s.c=c;s.o=o
    def __iter__(s): return iter((s.c,s.o))
def prob():
    p=HpProblem()
    a=p.add_hyperparameter((1,6),"a"); c=p.add_hyperparameter(["x","y","z"],"c"); r=p.add_hyperparameter((1e-3,1.0,"log-uniform"),"r")
    d=p.add_hyperparameter((0,5),"d"); e=p.add_hyperparameter(["p","q"],"e"); o=p.add_hyperparameter([2,4,8],"o")
    p.add_condition(cs.EqualsCondition(d,c,"x")); p.add_condition(cs.GreaterThanCondition(e,a,3)); p.add_condition(cs.InCondition(o,c,["y","z"]))
    p.add_forbidden_clause(cs.ForbiddenAndConjunction(cs.ForbiddenEqualsClause(a,6),cs.ForbiddenEqualsClause(c,"z")))
    return p
def check(p,x):
    errs=[]
    act={"d":x["c"]=="x","e":x["a"]>3,"o":x["c"] in("y","z")}
    inact={"d":0,"e":"p","o":2}
    for k,v in inact.items():
        if not act[k] and x[k]!=v: errs.append(("inactive-not-canonical",k,x[k]))
    if x["a"]==6 and x["c"]=="z": errs.append(("forbidden",))
    if not(1<=x["a"]<=6 and type(x["a"]) is int): errs.append(("a",x["a"]))
    if not(1e-3<=x["r"]<=1.0 and type(x["r"]) is float): errs.append(("r",x["r"],type(x["r"])))
    if x["c"] not in("x","y","z") or type(x["c"]) is not str: errs.append(("c",x["c"],type(x["c"])))
    if type(x["d"]) is not int or type(x["o"]) is not int or type(x["e"]) is not str: errs.append(("types",type(x["d"]),type(x["o"]),type(x["e"])))
    return errs
rng=np.random.RandomState(0)
for name,mk in [("RS",lambda p,ev:RandomSearch(p,ev,random_state=1,log_dir=tempfile.mkdtemp())),
                ("REGEVO",lambda p,ev:RegularizedEvolution(p,ev,random_state=1,log_dir=tempfile.mkdtemp(),population_size=5,sample_size=2)),
                ("CBO-ET",lambda p,ev:CBO(p,ev,random_state=1,log_dir=tempfile.mkdtemp(),surrogate_model="ET",n_initial_points=5,n_points=200,surrogate_model_kwargs={"n_estimators":5})),
                ("CBO-RF-qUCB",lambda p,ev:CBO(p,ev,random_state=1,log_dir=tempfile.mkdtemp(),surrogate_model="RF",multi_point_strategy="qUCB",n_initial_points=5,n_points=200,surrogate_model_kwargs={"n_estimators":5}))]:
    p=prob(); ev=Evaluator.create(run,method="serial"); s=mk(p,ev)
    if hasattr(s,"_setup_optimizer"): s._setup_optimizer()
    errs=[];n=0
    try:
        for it in range(12):
            X=s.ask(3); n+=len(X)
            for x in X: errs+=[(e,x) for e in check(p,x)]
            s.tell([J(x, float(rng.rand()) if rng.rand()>0.2 else "F_x") for x in X])
        print(name,"n",n,"errs",len(errs),errs[:3])
    except Exception as e:
        import traceback; print(name,"EXC",type(e).__name__,str(e)[:200])
