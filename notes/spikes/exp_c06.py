import warnings, tempfile, itertools, sys, json
warnings.filterwarnings("ignore")
import numpy as np
from deephyper.hpo import HpProblem, CBO, RandomSearch, RegularizedEvolution
from deephyper.evaluator import Evaluator
def trial(cls, pattern, kind, nobj, policy, sm):
    it=iter(pattern)
    async def run(job):
        ok=next(it)
        v=float(job.parameters["x"])
        if ok: return v if nobj==1 else (v,-v)
        if kind=="str": return "F_x"
        if kind=="nan": return float("nan") if nobj==1 else (v,float("nan"))
        if kind=="inf": return float("inf") if nobj==1 else (float("-inf"),v)
    p=HpProblem(); p.add_hyperparameter((0.0,1.0),"x"); p.add_hyperparameter(["a","b"],"c")
    ev=Evaluator.create(run,method="serial")
    kw={}
    if cls is CBO: kw=dict(surrogate_model=sm,filter_failures=policy,n_initial_points=2,n_points=50,surrogate_model_kwargs={"n_estimators":5} if sm in("ET","RF") else None)
    elif cls is RegularizedEvolution: kw=dict(population_size=3,sample_size=2)
    s=cls(p,ev,random_state=1,log_dir=tempfile.mkdtemp(),**kw)
    try:
        df=s.search(max_evals=len(pattern))
        return "ok"
    except Exception as e:
        return "EXC %s %s"%(type(e).__name__,str(e)[:60])
res={}
pats=[(0,0,0,0,0,0),(0,1,1,1,0,1),(1,0,1,0,1,1),(1,1,1,0,0,0),(0,0,1,1,1,1)]
for pattern in pats:
  for kind in ["str","nan","inf"]:
    for nobj in [1,2]:
      for policy,sm in [("min","ET"),("mean","ET"),("ignore","ET"),("min","GP"),("mean","GP"),("ignore","GP"),("min","RF")]:
        r=trial(CBO,pattern,kind,nobj,policy,sm)
        if r!="ok": res.setdefault(r,[]).append((pattern,kind,nobj,policy,sm))
      for cls in [RandomSearch,RegularizedEvolution]:
        if cls is RegularizedEvolution and nobj==2: continue
        r=trial(cls,pattern,kind,nobj,None,None)
        if r!="ok": res.setdefault(cls.__name__+" "+r,[]).append((pattern,kind,nobj))
for k,v in res.items(): print(k,len(v),v[:3])
