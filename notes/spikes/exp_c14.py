import warnings, time, tempfile, threading
warnings.filterwarnings("ignore")
from deephyper.hpo import HpProblem, RandomSearch
from deephyper.evaluator import Evaluator
from deephyper.evaluator._job import JobStatus
logs={}
lock=threading.Lock()
def run(job):
    d=[0.3,0.8,1.4,2.0][job["job_id"]%4]; poll=[0.05,0.2][job["job_id"]%2]
    t0=time.time(); seen=[]
    while time.time()-t0<d:
        s=job.status.name
        if not seen or seen[-1]!=s: seen.append(s)
        if s=="CANCELLING": break
        time.sleep(poll)
    with lock: logs[job["job_id"]]=(seen, round(time.time()-t0,2))
    return float(job["job_id"])
for nw in [1,3]:
    logs.clear()
    p=HpProblem(); p.add_hyperparameter((0.0,1.0),"x")
    ev=Evaluator.create(run,method="thread",method_kwargs={"num_workers":nw})
    s=RandomSearch(p,ev,random_state=1,log_dir=tempfile.mkdtemp())
    t=time.time(); df=s.search(timeout=2); 
    print("nw",nw,"took",round(time.time()-t,2)); print(df[["job_id","objective","job_status"]].to_string()); print(dict(sorted(logs.items())))
