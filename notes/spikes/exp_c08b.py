import warnings, collections, tempfile
warnings.filterwarnings("ignore")
import numpy as np
from deephyper.hpo import HpProblem, CBO
from deephyper.evaluator import Evaluator
async def run(job): return 0.0
class J:
    def __init__(s,c,o): s.c=c;s.o=o
    def __iter__(s): return iter((s.c,s.o))
for n in [1,2]:
    p = HpProblem(); p.add_hyperparameter((0,9),"a"); p.add_hyperparameter(["x","y","z"],"b")
    s = CBO(p, Evaluator.create(run, method="serial"), random_state=3, log_dir=tempfile.mkdtemp(), surrogate_model="ET", n_initial_points=3, n_points=200, filter_failures="ignore")
    s._setup_optimizer()
    seen=[]
    for it in range(8):
        X = s.ask(n); seen += [tuple(x.items()) for x in X]
        s.tell([J(x, 1.0 if it<3 else "F_bad") for x in X])
    print(n, seen)
