import warnings, collections
warnings.filterwarnings("ignore")
import numpy as np, ConfigSpace as cs
from deephyper.hpo import HpProblem, RandomSearch
from deephyper.hpo._problem import convert_to_skopt_space
def prob(cond=False):
    p = HpProblem()
    a=p.add_hyperparameter((1,4),"i"); p.add_hyperparameter((1,8,"log-uniform"),"ilog"); p.add_hyperparameter((0.0,1.0),"r"); p.add_hyperparameter((1e-2,1e2,"log-uniform"),"rlog")
    c=p.add_hyperparameter(["a","b","c"],"cat"); p.add_hyperparameter([1,2,4],"ord"); p.add_hyperparameter(5,"const")
    if cond:
        d=p.add_hyperparameter((0,2),"child"); p.add_condition(cs.EqualsCondition(d,c,"a"))
        p.add_forbidden_clause(cs.ForbiddenEqualsClause(a,4))
    return p
for cond in [False,True]:
  for sm in ["ET","GP"]:
    p=prob(cond); sp=convert_to_skopt_space(p.space,surrogate_model=sm)
    print([ (d.name,type(d).__name__,d.bounds,d.prior,d.transform_) for d in sp.dimensions])
    if sp.config_space: sp.config_space.seed(1)
    X=sp.rvs(20000,random_state=np.random.RandomState(0))
    for j,d in enumerate(sp.dimensions):
        col=[x[j] for x in X]
        if d.name in ("r","rlog"): print(d.name,min(col),max(col),np.mean(np.log10(col)) if d.name=="rlog" else np.mean(col))
        else: print(d.name,sorted(collections.Counter(col).items()))
