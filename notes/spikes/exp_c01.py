import asyncio, warnings
warnings.filterwarnings("ignore")
from deephyper.evaluator import Evaluator
async def run(job):
    await asyncio.sleep(job.parameters["d"])
    return job.parameters["x"]
ev = Evaluator.create(run, method="serial", method_kwargs={"num_workers":2})
ev.submit([{"x":i,"d":0.05*(i+1)} for i in range(4)])
r = ev.gather("BATCH",1)
print("g1",[ (j.id,j.output,j.status.name) for j in r], len(ev._tasks_running))
ev.close()
print("after close jobs_done", [(j.id,j.output,j.status.name) for j in ev.jobs_done], "running", len(ev._tasks_running), ev.job_id_submitted, ev.job_id_gathered, ev.num_jobs_submitted, ev.num_jobs_gathered)
ev.submit([{"x":10+i,"d":0.05} for i in range(2)])
r = ev.gather("BATCH",1)
print("g2",[ (j.id,j.output,j.status.name) for j in r], len(ev._tasks_running))
r = ev.gather("ALL")
print("g3",[ (j.id,j.output,j.status.name) for j in r], len(ev._tasks_running))
r = ev.gather("ALL")
print("g4",[ (j.id,j.output,j.status.name) for j in r], len(ev._tasks_running), ev.job_id_submitted, ev.num_jobs_submitted, ev.num_jobs_gathered)
try:
    print(ev.gather("BATCH",1))
except Exception as e: print("ERR",type(e),e)
